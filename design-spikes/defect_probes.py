import sys,types,logging,traceback
m=types.ModuleType('mpi4py');M=types.ModuleType('mpi4py.MPI')
class C:
    def Get_rank(s):return 0
    def Get_size(s):return 1
M.COMM_WORLD=C();m.MPI=M;sys.modules['mpi4py']=m;sys.modules['mpi4py.MPI']=M
sys.path.insert(0,'/scratch/b')
import numpy as np, warnings
warnings.simplefilter('ignore')
import enspara; logging.disable(logging.CRITICAL)
from enspara import ra
from enspara.cluster import kcenters, kmedoids, hybrid, util
from enspara.info_theory import mutual_info, libinfo
def T(name,f):
    try: print(name,'->',f())
    except Exception as e: print(name,'EXC',type(e).__name__,str(e)[:150])
X=np.random.RandomState(0).rand(12,2)
T('kcenters warm full', lambda: kcenters.kcenters(X,'euclidean',n_clusters=2,init_centers=X[[0,5]]).center_indices)
T('kcenters warm grow', lambda: kcenters.kcenters(X,'euclidean',n_clusters=3,init_centers=X[[0,5]]).center_indices)
T('KCenters est', lambda: kcenters.KCenters('euclidean',n_clusters=3).fit(X).center_indices_)
T('KCenters radius', lambda: len(kcenters.KCenters('euclidean',cluster_radius=0.3).fit(X).center_indices_))
T('kcenters n=inf cutoff', lambda: len(kcenters.kcenters(X,'euclidean',dist_cutoff=0.3).center_indices))
T('kcenters n>N', lambda: len(kcenters.kcenters(X,'euclidean',n_clusters=20).center_indices))
T('KMedoids est', lambda: kmedoids.KMedoids('euclidean',n_clusters=3,n_iters=2).fit(X).center_indices_)
T('kmedoids fn', lambda: kmedoids.kmedoids(X,'euclidean',n_clusters=3,n_iters=2,random_state=1).center_indices)
T('KHybrid est', lambda: hybrid.KHybrid('euclidean',n_clusters=3,kmedoids_updates=2,random_state=3).fit(X).center_indices_)
# RA multi-dim rectangular
T('RA md rect', lambda: ra.RaggedArray(np.arange(12).reshape(6,2),lengths=[3,3])[0])
T('RA md ragged', lambda: ra.RaggedArray(np.arange(12).reshape(6,2),lengths=[2,4])[0])
T('RA md single', lambda: ra.RaggedArray(np.arange(12).reshape(6,2),lengths=[6])[0])
# striped assemble pattern
def asm():
    g=ra.RaggedArray(np.zeros(6)-1,lengths=[1,3,1,1])
    r=ra.RaggedArray(np.array([5.,6.]),lengths=[1,1])
    g[0::2]=r
    return g._data
T('assemble eq-len rows into ragged', asm)
def asm2():
    g=ra.RaggedArray(np.zeros(8)-1,lengths=[2,3,2,1])
    r=ra.RaggedArray(np.array([5.,6.,7.,8.]),lengths=[2,2])
    g[0::2]=r
    return g._data
T('assemble eq-len(2) rows into ragged', asm2)
# bincount negatives
a=np.array([[0],[1],[-1],[1]],dtype=np.int32)
T('jc negative', lambda: mutual_info.joint_counts(a,a,2,2).ravel())
T('jc too large', lambda: mutual_info.joint_counts(a.clip(0)+1,a.clip(0),2,2).ravel())
T('jc diff len', lambda: mutual_info.joint_counts(a.clip(0),a.clip(0)[:3],2,2).ravel())
T('ccn', lambda: mutual_info.channel_capacity_normalization(np.ones((2,3)),[2,3],[4,2,5]))
