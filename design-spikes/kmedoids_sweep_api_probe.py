import sys,types,logging,warnings
m=types.ModuleType('mpi4py');M=types.ModuleType('mpi4py.MPI')
class C:
    def Get_rank(s):return 0
    def Get_size(s):return 1
M.COMM_WORLD=C();m.MPI=M;sys.modules['mpi4py']=m;sys.modules['mpi4py.MPI']=M
sys.path.insert(0,'/scratch/b')
import numpy as np
warnings.simplefilter('ignore')
import enspara; logging.disable(logging.CRITICAL)
from enspara.cluster import kcenters, kmedoids, hybrid, util
from enspara.geometry import libdist
rs=np.random.RandomState(3); X=rs.rand(25,2)
r=kcenters.kcenters(X,'euclidean',n_clusters=4)
ci=[int(c) for c in r.center_indices]; a=r.assignments.copy(); d=r.distances.copy()
cost=lambda d: np.mean(d**2)
print('start',ci,cost(d))
for sweep in range(4):
    props=[int(rs.choice(np.where(a==c)[0])) for c in range(4)]
    X0=X.copy(); a0=a.copy(); d0=d.copy(); ci0=list(ci)
    res=kmedoids.kmedoids(X,'euclidean',n_iters=1,assignments=a,distances=d,cluster_center_inds=ci,proposals=props)
    print(sweep,'props',props,'->',[int(c) for c in res.center_indices],cost(res.distances),'inputs mutated: a',not np.array_equal(a,a0),'d',not np.array_equal(d,d0),'ci',ci!=ci0)
    ci=[int(c) for c in res.center_indices]; a=res.assignments; d=res.distances
# warm start variants
res=kmedoids.kmedoids(X,'euclidean',n_iters=1,cluster_center_inds=[0,5,7],random_state=1); print('ctr only',res.center_indices)
res=kmedoids.kmedoids(X,'euclidean',n_iters=1,assignments=a,distances=d,random_state=1); print('a,d only',res.center_indices)
try:
    res=kmedoids.kmedoids(X,'euclidean',n_iters=1,cluster_center_inds=[(0,0),(1,2),(2,1)],X_lengths=[5,10,10],random_state=1); print('pairs',res.center_indices)
except Exception as e: print('pairs EXC',type(e).__name__,e)
# estimator forms
km=kmedoids.KMedoids('euclidean',n_clusters=3,n_iters=2); km.fit(X); print(km.center_indices_, type(km.centers_))
kh=hybrid.KHybrid('euclidean',n_clusters=3,kmedoids_updates=2,random_state=0).fit(X); print(kh.center_indices_)
p=kh.predict(rs.rand(5,2)); print(p.assignments,p.center_indices)
# n_iters=0 in kmedoids
try: print(kmedoids.kmedoids(X,'euclidean',n_clusters=3,n_iters=0))
except Exception as e: print('n_iters=0 EXC',type(e).__name__,e)
