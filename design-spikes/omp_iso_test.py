import ctypes, numpy as np
g=ctypes.CDLL('/scratch/gomp/libsimgomp2.so'); k=ctypes.CDLL('/scratch/gomp/libkern.so')
g.simgomp_config.argtypes=[ctypes.c_int,ctypes.c_ulonglong,ctypes.c_int]; g.simgomp_watch.argtypes=[ctypes.c_void_p,ctypes.c_size_t]
rs=np.random.RandomState(0); nt,nf,ns=40,3,4
a=rs.randint(0,ns,size=(nt,nf)).astype(np.int32)
ref=np.stack([np.bincount(a[:,f],minlength=ns) for f in range(nf)]).astype(np.uint32)
def call(fn,T,seed,iso):
    h=np.zeros((nf,ns),dtype=np.uint32); g.simgomp_unwatch_all(); g.simgomp_watch(h.ctypes.data,h.nbytes); g.simgomp_config(T,seed,iso)
    fn(a.ctypes.data_as(ctypes.c_void_p),nt,nf,ns,h.ctypes.data_as(ctypes.c_void_p)); return h
for name,fn in (('ok',k.hist_ok),('racy',k.hist_racy)):
    for iso in (0,1):
        bad=0
        for T in (1,2,3,8,40):
            for seed in range(3):
                if not np.array_equal(call(fn,T,seed,iso),ref): bad+=1
        print(name,'iso',iso,'mismatches',bad,'/15')
# replay determinism
print(all(np.array_equal(call(k.hist_racy,8,5,1),call(k.hist_racy,8,5,1)) for _ in range(5)))
x0=np.arange(1,11,dtype=float)
for iso in (0,1):
    outs=set()
    for T in (1,2,5,9):
        for seed in range(3):
            x=x0.copy(); g.simgomp_unwatch_all(); g.simgomp_watch(x.ctypes.data,x.nbytes); g.simgomp_config(T,seed,iso); k.prefix_racy(x.ctypes.data_as(ctypes.c_void_p),10); outs.add(tuple(x))
    print('prefix iso',iso,'distinct outcomes',len(outs), 'seq-correct in outs', tuple(np.cumsum(x0)) in outs)
st=(ctypes.c_long*5)(); g.simgomp_stats(st); print(list(st))
