#include <stddef.h>
/* correct: parallel over features (each owns its row of hist) */
void hist_ok(const int*a,int nt,int nf,int ns,unsigned*h){
  #pragma omp parallel for
  for(int f=0;f<nf;f++) for(int t=0;t<nt;t++) h[f*ns+a[t*nf+f]]+=1; }
/* racy: parallel over time */
void hist_racy(const int*a,int nt,int nf,int ns,unsigned*h){
  #pragma omp parallel for
  for(int t=0;t<nt;t++) for(int f=0;f<nf;f++) h[f*ns+a[t*nf+f]]+=1; }
/* read-write dependence between iterations */
void prefix_racy(double*x,int n){
  #pragma omp parallel for
  for(int i=1;i<n;i++) x[i]=x[i]+x[i-1]; }
