import sys, ctypes, importlib.util, time
import numpy as np
sys.path.insert(0,'/scratch/b')   # for enspara.exception import inside libdist
g=ctypes.CDLL('/scratch/gomp/libsimgomp.so')
g.simgomp_config.argtypes=[ctypes.c_int,ctypes.c_ulonglong]
import glob
p=glob.glob('/scratch/gomp/libdist*.so')[0]
spec=importlib.util.spec_from_file_location('enspara.geometry.libdist',p)
ld=importlib.util.module_from_spec(spec); spec.loader.exec_module(ld)
rs=np.random.RandomState(0)
X=rs.rand(37,5); y=rs.rand(5)
ref=np.sqrt(((X-y)**2).sum(1))
for T in (1,2,3,7,16,64):
    for seed in range(3):
        g.simgomp_config(T,seed)
        out=ld.euclidean(X,y)
        assert np.allclose(out,ref), (T,seed)
        assert np.array_equal(out, ld.euclidean(np.asfortranarray(X),y))
st=(ctypes.c_long*3)(); g.simgomp_stats(st); print(list(st))
t=time.time()
for i in range(2000): g.simgomp_config(1+i%16,i); ld.euclidean(X,y)
print('calls/s',2000/(time.time()-t))
# run in a thread
import threading
def f(): g.simgomp_config(5,1); print(np.allclose(ld.manhattan(X,y),np.abs(X-y).sum(1)))
th=threading.Thread(target=f); th.start(); th.join()
