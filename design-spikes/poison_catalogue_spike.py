import sys,types,logging,warnings
m=types.ModuleType('mpi4py');M=types.ModuleType('mpi4py.MPI')
class C:
    def Get_rank(s):return 0
    def Get_size(s):return 1
M.COMM_WORLD=C();M.SUM=None;M.MAX=None;m.MPI=M;sys.modules['mpi4py']=m;sys.modules['mpi4py.MPI']=M
sys.path.insert(0,'/scratch/b'); sys.path.insert(0,'/scratch/alloc')
import numpy as np, scipy.sparse as sp
warnings.simplefilter('ignore')
import enspara; logging.disable(logging.CRITICAL)
import simalloc
from enspara import ra, tpt
from enspara.cluster import kcenters, kmedoids, hybrid, util
from enspara.msm import builders, transition_matrices as tm, MSM, implied_timescales, synthetic_data
from enspara.info_theory import mutual_info as mi, entropy
from enspara.geometry import libdist, rotamer
from enspara.cards import disorder

rs=np.random.RandomState(1)
X=rs.rand(30,3); a=rs.randint(0,4,size=(3,40)); C=tm.assigns_to_counts(a,2).toarray().astype(float)+1
T=C/C.sum(1,keepdims=True)
feat=rs.randint(0,3,size=(50,4)).astype(np.int32)
p=np.array([0.2,0.3,0,0.5,0,0]); q=np.array([0.1,0.3,0.1,0.5,0,0])
Tsym=(C+C.T); Tsym=Tsym/Tsym.sum(1,keepdims=True)
cases={
 'euclid':lambda: libdist.euclidean(X,X[3]),
 'manh':lambda: libdist.manhattan(X.astype(np.float32),X[3].astype(np.float32)),
 'hamm':lambda: libdist.hamming(feat.astype(np.uint8),feat[0].astype(np.uint8)),
 'kcenters':lambda: kcenters.kcenters(X,'euclidean',n_clusters=4).distances,
 'hybrid':lambda: hybrid.hybrid(X,'euclidean',n_clusters=4,n_iters=3,random_state=0).distances,
 'kmedoids':lambda: kmedoids.kmedoids(X,'euclidean',n_clusters=4,n_iters=3,random_state=0).distances,
 'a2c':lambda: tm.assigns_to_counts(a,3).toarray(),
 'trim':lambda: tm.trim_disconnected(np.array([[1,1,0,0],[1,1,0,0],[0,0,5,1],[0,1,1,5]]))[1],
 'norm':lambda: np.hstack(builders.normalize(C)[1:]),
 'norm_sp':lambda: builders.normalize(sp.csr_matrix(C))[1].toarray(),
 'transpose':lambda: np.hstack([builders.transpose(C)[1].ravel(),builders.transpose(C)[2]]),
 'mle':lambda: builders._prinz_mle(C)[0],
 'eig':lambda: tm.eigenspectrum(T)[0],
 'eqp':lambda: tm.eq_probs(T),
 'comm':lambda: tpt.committors(T,[0],[3]),
 'comm_sp':lambda: tpt.committors(sp.csr_matrix(T),[0],[3]),
 'mfpt':lambda: tpt.mfpts(T),
 'mfpt_s':lambda: tpt.mfpts(T,sinks=[1,2]),
 'flux':lambda: tpt.reactive_fluxes(Tsym,[0],[3]),
 'net':lambda: tpt.net_fluxes(Tsym,[0],[3]),
 'rpop':lambda: tpt.reactive_populations(Tsym,[0],[3]),
 'paths':lambda: np.concatenate(tpt.paths([0],[3],tpt.net_fluxes(Tsym,[0],[3]))[0]),
 'jc':lambda: mi.joint_counts(feat,feat,3,3),
 'mi':lambda: mi.mutual_information(mi.joint_counts(feat,feat,3,3)),
 'mimat':lambda: mi.mi_matrix([feat,feat],[feat,feat],3,3),
 'wmi':lambda: mi.weighted_mi(feat,np.ones(50)/50),
 'ccn':lambda: mi.channel_capacity_normalization(np.ones((4,4)),3,3),
 'shannon':lambda: entropy.shannon_entropy(p),
 'shannon_nz':lambda: entropy.shannon_entropy(p[p>0]),
 'kl':lambda: entropy.kl_divergence(p,q),
 'ra_ops':lambda: (ra.RaggedArray(np.arange(10.),lengths=[3,7])*2+1)[:,1:3]._data,
 'ra_where':lambda: np.hstack(ra.where(ra.RaggedArray(np.arange(10.),lengths=[3,7])>4)),
 'rot':lambda: rotamer._rotamers(rs2.rand(50)*360,[0,120,240,360],15),
 'trans':lambda: disorder.transitions(a)._data,
 'assign':lambda: util.assign_to_nearest_center(X,X[:4],libdist.euclidean)[1],
 'impl':lambda: implied_timescales(a,[1,2],builders.transpose,n_times=2),
 'ens':lambda: synthetic_data.synthetic_ensemble(T,np.ones(4)/4,5)[1],
 'mi_empty':lambda: mi.mutual_information(np.zeros((2,2,3,3),dtype=np.uint32)),
}
def run(f):
    global rs2
    rs2=np.random.RandomState(5)
    try:
        with np.errstate(all='ignore'): r=f()
        return np.asarray(r,dtype=float) if not sp.issparse(r) else r.toarray()
    except Exception as e: return ('EXC',type(e).__name__,str(e)[:80])
base={k:run(f) for k,f in cases.items()}
for mode in (1,2,3):
    simalloc.install(mode,777)
    res={k:run(f) for k,f in cases.items()}
    simalloc.uninstall()
    for k in cases:
        b,r=base[k],res[k]
        if isinstance(b,tuple) or isinstance(r,tuple):
            same = (isinstance(b,tuple) and isinstance(r,tuple) and b[:2]==r[:2])
        else: same = b.shape==r.shape and np.array_equal(b,r,equal_nan=True)
        if not same: print('mode',mode,k,'DIFF', (b if isinstance(b,tuple) else b.ravel()[:4]), (r if isinstance(r,tuple) else r.ravel()[:4]))
print({k:(v if isinstance(v,tuple) else 'ok') for k,v in base.items() if isinstance(v,tuple)})
print(simalloc.stats())
