import sys,types,logging,warnings
m=types.ModuleType('mpi4py');M=types.ModuleType('mpi4py.MPI')
class C:
    def Get_rank(s):return 0
    def Get_size(s):return 1
M.COMM_WORLD=C();m.MPI=M;sys.modules['mpi4py']=m;sys.modules['mpi4py.MPI']=M
sys.path.insert(0,'/scratch/b')
import numpy as np
warnings.simplefilter('ignore')
import enspara; logging.disable(logging.CRITICAL)
from enspara.cluster import kcenters, kmedoids, hybrid
bad=0
for seed in range(200):
    rs=np.random.RandomState(seed); X=rs.rand(rs.randint(6,30),2); K=rs.randint(2,6)
    full=kcenters.kcenters(X,'euclidean',n_clusters=K)
    for k in range(1,K+1):
        r=kcenters.kcenters(X,'euclidean',n_clusters=k)
        if [int(c) for c in r.center_indices]!=[int(c) for c in full.center_indices[:k]]: bad+=1
    prev=None; costs=[]
    for t in range(0,4):
        h=hybrid.hybrid(X,'euclidean',n_clusters=K,n_iters=t,random_state=seed)
        costs.append(np.mean(h.distances**2))
    if any(costs[i+1]>costs[i]+1e-15 for i in range(3)): bad+=1; print('cost up',seed,costs)
    # prefix via estimator with RandomState object stream
    a=hybrid.KHybrid('euclidean',n_clusters=K,kmedoids_updates=2,random_state=seed).fit(X)
    b=hybrid.KHybrid('euclidean',n_clusters=K,kmedoids_updates=2,random_state=seed).fit(X)
    if list(a.center_indices_)!=list(b.center_indices_): bad+=1; print('nondeterministic',seed)
    km1=kmedoids.kmedoids(X,'euclidean',n_clusters=K,n_iters=1,random_state=seed); km3=kmedoids.kmedoids(X,'euclidean',n_clusters=K,n_iters=3,random_state=seed)
    if np.mean(km3.distances**2)>np.mean(km1.distances**2)+1e-15: bad+=1; print('km prefix cost',seed)
print('bad',bad)
