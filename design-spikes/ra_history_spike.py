import sys,types,logging,warnings,random,collections,traceback
m=types.ModuleType('mpi4py');M=types.ModuleType('mpi4py.MPI')
class C:
    def Get_rank(s):return 0
    def Get_size(s):return 1
M.COMM_WORLD=C();m.MPI=M;sys.modules['mpi4py']=m;sys.modules['mpi4py.MPI']=M
sys.path.insert(0,'/scratch/b')
import numpy as np
warnings.simplefilter('ignore')
import enspara; logging.disable(logging.CRITICAL)
from enspara import ra

def observe(a, rows):
    probs=[]
    if len(a)!=len(rows): probs.append(('len',len(a),len(rows)))
    if list(a.lengths)!=[len(r) for r in rows]: probs.append(('lengths',list(a.lengths),[len(r) for r in rows]))
    flat=np.concatenate(rows) if rows else np.array([])
    if not np.array_equal(a.flatten(),flat): probs.append(('flatten',a.flatten().tolist(),flat.tolist()))
    for i,r in enumerate(rows):
        try:
            if not np.array_equal(np.asarray(a[i]),r): probs.append(('row',i,np.asarray(a[i]).tolist(),r.tolist()))
        except Exception as e: probs.append(('rowexc',i,repr(e)))
    its=[np.asarray(x) for x in a]
    if len(its)!=len(rows) or any(not np.array_equal(x,r) for x,r in zip(its,rows)): probs.append(('iter',))
    # element reads
    for i,r in enumerate(rows):
        for j in (0,len(r)-1):
            try:
                if a[i,j]!=r[j]: probs.append(('elem',i,j))
            except Exception as e: probs.append(('elemexc',i,j,repr(e)))
    st=np.concatenate([[0],np.cumsum([len(r) for r in rows])[:-1]]) if rows else []
    if list(a.starts)!=list(st): probs.append(('starts',))
    return probs

fails=collections.Counter(); examples={}
for seed in range(3000):
    rng=random.Random(seed)
    n=rng.randint(1,4); lens=[rng.randint(1,4) for _ in range(n)]
    if rng.random()<0.3: lens=[lens[0]]*n
    vals=iter(range(1000))
    rows=[np.array([float(next(vals)) for _ in range(l)]) for l in lens]
    mode=rng.choice(['nested','flat_list','flat_arr'])
    if mode=='nested': a=ra.RaggedArray([r.copy() for r in rows])
    elif mode=='flat_list': a=ra.RaggedArray(np.concatenate(rows),lengths=list(lens))
    else: a=ra.RaggedArray(np.concatenate(rows),lengths=np.array(lens))
    hist=[('new',mode,lens)]
    try:
      for step in range(rng.randint(1,6)):
        op=rng.choice(['elem','row','rowslice_col','append','iadd','mask','fancy','introwslice','rowsl_assign'])
        i=rng.randrange(len(rows)); 
        if op=='elem':
            j=rng.randrange(len(rows[i])); v=float(next(vals)); hist.append((op,i,j,v)); a[i,j]=v; rows[i][j]=v
        elif op=='row':
            v=np.array([float(next(vals)) for _ in rows[i]]); hist.append((op,i,v.tolist())); a[i]=v; rows[i]=v.copy()
        elif op=='introwslice':
            lo=rng.randrange(len(rows[i])); hi=rng.randint(lo+1,len(rows[i])); v=np.array([float(next(vals)) for _ in range(hi-lo)]); hist.append((op,i,lo,hi)); a[i,lo:hi]=v; rows[i][lo:hi]=v
        elif op=='rowslice_col':
            k=rng.randint(1,2); hist.append((op,k)); 
            newrows=[r[:k] for r in rows]; v=float(next(vals)); a[:,:k]=v
            for r in rows: r[:k]=v
        elif op=='append':
            v=[np.array([float(next(vals)) for _ in range(rng.randint(1,3))]) for _ in range(rng.randint(1,2))]; hist.append((op,[x.tolist() for x in v])); a.append(v); rows.extend([x.copy() for x in v])
        elif op=='iadd':
            hist.append((op,)); a+=1.0; rows=[r+1.0 for r in rows]
        elif op=='mask':
            thr=rng.choice([r[0] for r in rows]); hist.append((op,thr)); a[a>thr]=-1.0
            for r in rows: r[r>thr]=-1.0
        elif op=='fancy':
            i2=rng.randrange(len(rows)); j=rng.randrange(len(rows[i])); j2=rng.randrange(len(rows[i2]))
            if (i,j)==(i2,j2): continue
            v=[float(next(vals)),float(next(vals))]; hist.append((op,[i,i2],[j,j2])); a[(np.array([i,i2]),np.array([j,j2]))]=np.array(v); rows[i][j]=v[0]; rows[i2][j2]=v[1]
        elif op=='rowsl_assign':
            if len(rows)<2: continue
            lo=rng.randrange(len(rows)-1); src=[np.array([float(next(vals)) for _ in rows[t]]) for t in (lo,lo+1)]; hist.append((op,lo)); a[lo:lo+2]=ra.RaggedArray([x.copy() for x in src]); rows[lo]=src[0].copy(); rows[lo+1]=src[1].copy()
        pr=observe(a,rows)
        if pr:
            key=(hist[-1][0],pr[0][0]); fails[key]+=1; examples.setdefault(key,(seed,hist,pr[:2])); break
    except Exception as e:
        key=(hist[-1][0],'EXC',type(e).__name__); fails[key]+=1; examples.setdefault(key,(seed,hist,str(e)[:100]))
for k,v in fails.most_common(): print(v,k,examples[k])
