#define PY_SSIZE_T_CLEAN
#include <Python.h>
#define NPY_NO_DEPRECATED_API NPY_1_22_API_VERSION
#define NPY_TARGET_VERSION NPY_1_22_API_VERSION
#include <numpy/arrayobject.h>
#include <string.h>
#include <stdlib.h>
#include <stdint.h>

#define RZ 64
static uint64_t poison_state = 0x9E3779B97F4A7C15ULL;
static int poison_mode = 0; /* 0 off, 1 NaN pattern, 2 seeded random bytes, 3 0xFF */
static long n_malloc=0,n_calloc=0,n_realloc=0,n_free=0,n_rz_bad=0;

static inline uint64_t nxt(void){ uint64_t z=(poison_state+=0x9E3779B97F4A7C15ULL); z=(z^(z>>30))*0xBF58476D1CE4E5B9ULL; z=(z^(z>>27))*0x94D049BB133111EBULL; return z^(z>>31);}
static void fill(unsigned char*p,size_t n){
  if(poison_mode==1){ uint64_t q=0x7FF8DEADBEEF0001ULL; size_t i; for(i=0;i+8<=n;i+=8) memcpy(p+i,&q,8); for(;i<n;i++) p[i]=0x7F; }
  else if(poison_mode==2){ size_t i; for(i=0;i+8<=n;i+=8){uint64_t q=nxt(); memcpy(p+i,&q,8);} for(;i<n;i++) p[i]=(unsigned char)nxt(); }
  else if(poison_mode==3){ memset(p,0xFF,n);} 
}
typedef struct { size_t size; uint64_t magic; } hdr_t;
#define HDR (RZ)  /* header lives in the front red zone */
static void* wrap(unsigned char*raw,size_t size){
  hdr_t h={size,0xC0FFEE1234ABCDEFULL}; memset(raw,0xA5,RZ); memcpy(raw,&h,sizeof h); memset(raw+RZ+size,0x5A,RZ); return raw+RZ; }
static int check(unsigned char*user){ unsigned char*raw=user-RZ; hdr_t h; memcpy(&h,raw,sizeof h); if(h.magic!=0xC0FFEE1234ABCDEFULL) return -1; int bad=0; for(size_t i=sizeof h;i<RZ;i++) if(raw[i]!=0xA5) bad=1; for(size_t i=0;i<RZ;i++) if(raw[RZ+h.size+i]!=0x5A) bad=1; return bad; }
static void* s_malloc(void*ctx,size_t size){ n_malloc++; unsigned char*raw=malloc(size+2*RZ); if(!raw) return NULL; void*u=wrap(raw,size); fill(u,size); return u; }
static void* s_calloc(void*ctx,size_t n,size_t e){ n_calloc++; size_t size=n*e; unsigned char*raw=malloc(size+2*RZ); if(!raw) return NULL; void*u=wrap(raw,size); memset(u,0,size); return u; }
static void s_free(void*ctx,void*p,size_t size){ if(!p) return; n_free++; int c=check(p); if(c>0) n_rz_bad++; free((unsigned char*)p-RZ); }
static void* s_realloc(void*ctx,void*p,size_t size){ n_realloc++; if(!p) return s_malloc(ctx,size); unsigned char*raw=(unsigned char*)p-RZ; hdr_t h; memcpy(&h,raw,sizeof h); if(check(p)>0) n_rz_bad++; unsigned char*nr=malloc(size+2*RZ); if(!nr) return NULL; void*u=wrap(nr,size); size_t k=h.size<size?h.size:size; memcpy(u,p,k); if(size>k) fill((unsigned char*)u+k,size-k); free(raw); return u; }
static PyDataMem_Handler handler={"simalloc",1,{NULL,s_malloc,s_calloc,s_realloc,s_free}};
static PyObject* old_handler=NULL;
static PyObject* install(PyObject*self,PyObject*args){ int mode; unsigned long long seed; if(!PyArg_ParseTuple(args,"iK",&mode,&seed)) return NULL; poison_mode=mode; poison_state=seed; PyObject*cap=PyCapsule_New(&handler,"mem_handler",NULL); if(!cap) return NULL; PyObject*old=PyDataMem_SetHandler(cap); Py_DECREF(cap); if(!old) return NULL; if(!old_handler) old_handler=old; else Py_DECREF(old); Py_RETURN_NONE; }
static PyObject* uninstall(PyObject*self,PyObject*a){ if(old_handler){ PyObject*o=PyDataMem_SetHandler(old_handler); Py_XDECREF(o);} Py_RETURN_NONE; }
static PyObject* stats(PyObject*self,PyObject*a){ return Py_BuildValue("{s:l,s:l,s:l,s:l,s:l}","malloc",n_malloc,"calloc",n_calloc,"realloc",n_realloc,"free",n_free,"redzone_bad",n_rz_bad); }
static PyMethodDef M[]={{"install",install,METH_VARARGS,""},{"uninstall",uninstall,METH_NOARGS,""},{"stats",stats,METH_NOARGS,""},{0}};
static struct PyModuleDef mod={PyModuleDef_HEAD_INIT,"simalloc",0,-1,M};
PyMODINIT_FUNC PyInit_simalloc(void){ import_array(); return PyModule_Create(&mod); }
