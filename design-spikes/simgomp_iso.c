#define _GNU_SOURCE
#include <ucontext.h>
#include <stdlib.h>
#include <stdio.h>
#include <string.h>
#include <stdint.h>
#define MAXT 64
#define MAXB 64
#define STK (256*1024)
static int cfg_T=4, cfg_iso=1; static uint64_t rng=1; static int in_par=0, cur=-1, team=1;
static ucontext_t sched_ctx, tctx[MAXT]; static char *stk[MAXT];
static int state[MAXT];
static void (*g_fn)(void*); static void*g_data;
static long n_regions=0,n_switch=0,n_barriers=0,n_conflict_bytes=0,n_diff_bytes=0;
/* watched buffers */
static unsigned char* wb[MAXB]; static size_t wn[MAXB]; static int nwb=0;
static unsigned char* snap[MAXB];            /* epoch snapshot */
static unsigned char* priv[MAXT][MAXB];      /* per-thread private image (NULL = same as snap) */
static uint64_t nxt(void){ uint64_t z=(rng+=0x9E3779B97F4A7C15ULL); z=(z^(z>>30))*0xBF58476D1CE4E5B9ULL; z=(z^(z>>27))*0x94D049BB133111EBULL; return z^(z>>31);}
void simgomp_config(int T,unsigned long long seed,int iso){cfg_T=T;rng=seed;cfg_iso=iso;}
void simgomp_watch(void*p,size_t n){ if(nwb<MAXB){wb[nwb]=p;wn[nwb]=n;nwb++;} }
void simgomp_unwatch_all(void){nwb=0;}
void simgomp_stats(long*o){o[0]=n_regions;o[1]=n_switch;o[2]=n_barriers;o[3]=n_conflict_bytes;o[4]=n_diff_bytes;}
static void tramp(void){ g_fn(g_data); state[cur]=2; swapcontext(&tctx[cur],&sched_ctx); }
static void take_snapshot(void){ for(int b=0;b<nwb;b++){ snap[b]=realloc(snap[b],wn[b]?wn[b]:1); memcpy(snap[b],wb[b],wn[b]); } }
static void load_private(int k){ for(int b=0;b<nwb;b++){ memcpy(wb[b], priv[k][b]?priv[k][b]:snap[b], wn[b]); } }
static void save_private(int k){ for(int b=0;b<nwb;b++){ priv[k][b]=realloc(priv[k][b],wn[b]?wn[b]:1); memcpy(priv[k][b],wb[b],wn[b]); } }
static void merge(int T){ /* apply diffs of each thread (vs snap) in seeded order; count conflicts */
  int order[MAXT]; for(int k=0;k<T;k++)order[k]=k; for(int k=T-1;k>0;k--){int j=nxt()%(k+1);int t=order[k];order[k]=order[j];order[j]=t;}
  for(int b=0;b<nwb;b++){ unsigned char*out=malloc(wn[b]?wn[b]:1); unsigned char*wr=calloc(wn[b]?wn[b]:1,1); memcpy(out,snap[b],wn[b]);
    for(int oi=0;oi<T;oi++){int k=order[oi]; if(!priv[k][b])continue; for(size_t i=0;i<wn[b];i++) if(priv[k][b][i]!=snap[b][i]){ if(wr[i]&&out[i]!=priv[k][b][i])n_conflict_bytes++; wr[i]=1; out[i]=priv[k][b][i]; n_diff_bytes++; } }
    memcpy(wb[b],out,wn[b]); free(out); free(wr); }
  for(int k=0;k<T;k++)for(int b=0;b<nwb;b++){free(priv[k][b]);priv[k][b]=NULL;} }
void GOMP_parallel(void (*fn)(void*),void*data,unsigned nt,unsigned flags){
  if(in_par){ fn(data); return; }
  int T=nt?nt:cfg_T; if(T>MAXT)T=MAXT; team=T; in_par=1; g_fn=fn; g_data=data; n_regions++;
  int iso=cfg_iso&&nwb>0; if(iso) take_snapshot();
  for(int k=0;k<T;k++){ if(!stk[k]) stk[k]=malloc(STK); getcontext(&tctx[k]); tctx[k].uc_stack.ss_sp=stk[k]; tctx[k].uc_stack.ss_size=STK; tctx[k].uc_link=&sched_ctx; makecontext(&tctx[k],tramp,0); state[k]=0; }
  for(;;){ int run[MAXT],nr=0,nb=0,nd=0; for(int k=0;k<T;k++){ if(state[k]==0)run[nr++]=k; else if(state[k]==1)nb++; else nd++; }
    if(nr==0){ if(iso){ merge(T); if(nd<T) take_snapshot(); } if(nd==T)break; if(nb>0&&nd>0)abort(); for(int k=0;k<T;k++) if(state[k]==1)state[k]=0; n_barriers++; continue; }
    cur=run[nxt()%nr]; n_switch++; if(iso)load_private(cur); swapcontext(&sched_ctx,&tctx[cur]); if(iso)save_private(cur); }
  in_par=0; cur=-1; team=1; }
void GOMP_barrier(void){ if(!in_par)return; state[cur]=1; swapcontext(&tctx[cur],&sched_ctx); }
int omp_get_num_threads(void){return in_par?team:1;} int omp_get_thread_num(void){return in_par?cur:0;}
int omp_get_max_threads(void){return cfg_T;} void omp_set_num_threads(int n){cfg_T=n;} int omp_in_parallel(void){return in_par;}
