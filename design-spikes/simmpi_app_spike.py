import sys, types, threading, pickle, random, time, logging
import numpy as np

class Mismatch(Exception): pass
class Deadlock(Exception): pass

class Op:
    def __init__(s,name,f): s.name=name; s.f=f
    def __call__(s,a,b): return s.f(a,b)
SUM=Op('SUM',lambda a,b:a+b); MAX=Op('MAX',lambda a,b:max(a,b))

class Sim:
    def __init__(self, n, seed):
        self.n=n; self.rng=random.Random(seed)
        self.cur=None
        self.ev=[threading.Event() for _ in range(n)]
        self.sched_ev=threading.Event()
        self.pending={}   # rank -> (kind, args)
        self.results={}
        self.done=set(); self.err={}
        self.trace=[]
    # called in rank thread
    def _yield(self):
        r=self.cur
        self.sched_ev.set()
        self.ev[r].wait(); self.ev[r].clear()
    def coll(self, kind, meta, payload):
        r=self.cur
        self.pending[r]=(kind,meta,payload)
        self._yield()
        return self.results.pop(r)
    def run(self, fn):
        outs=[None]*self.n
        def body(r):
            self.ev[r].wait(); self.ev[r].clear()
            try: outs[r]=fn(r)
            except BaseException as e: self.err[r]=e
            self.done.add(r)
            self.sched_ev.set()
        ths=[threading.Thread(target=body,args=(r,),daemon=True) for r in range(self.n)]
        for t in ths: t.start()
        runnable=set(range(self.n))
        while True:
            if self.err: break
            if runnable:
                r=self.rng.choice(sorted(runnable)); runnable.discard(r)
                self.cur=r; self.trace.append(r)
                self.sched_ev.clear(); self.ev[r].set(); self.sched_ev.wait()
                continue
            waiting=set(self.pending)
            if len(self.done)==self.n: break
            if waiting|self.done!=set(range(self.n)): raise RuntimeError('lost')
            if self.done and waiting: raise Deadlock((sorted(self.done),{r:self.pending[r][:2] for r in waiting}))
            kinds={self.pending[r][:2] for r in waiting}
            if len(kinds)!=1: raise Mismatch({r:self.pending[r][:2] for r in waiting})
            kind,meta=kinds.pop()
            pl=[self.pending[r][2] for r in range(self.n)]
            cp=lambda o: pickle.loads(pickle.dumps(o))
            if kind=='bcast':
                for r in range(self.n): self.results[r]= pl[meta] if r==meta else cp(pl[meta])
            elif kind=='Bcast':
                src=pl[meta]
                for r in range(self.n):
                    if r!=meta:
                        assert pl[r].nbytes==src.nbytes,(pl[r].nbytes,src.nbytes)
                        pl[r].reshape(-1).view(np.uint8)[:]=np.ascontiguousarray(src).reshape(-1).view(np.uint8)
                    self.results[r]=None
            elif kind=='allgather':
                for r in range(self.n): self.results[r]=[cp(x) for x in pl]
            elif kind=='allreduce':
                order=list(range(self.n)); 
                acc=cp(pl[order[0]])
                for k in order[1:]: acc=meta(acc,cp(pl[k]))
                for r in range(self.n): self.results[r]=cp(acc)
            elif kind=='barrier':
                for r in range(self.n): self.results[r]=None
            self.pending.clear(); runnable=set(range(self.n))
        if self.err: raise list(self.err.values())[0]
        return outs

SIM=None
class Comm:
    def Get_rank(s): return 0 if SIM is None else SIM.cur
    def Get_size(s): return 1 if SIM is None else SIM.n
    def bcast(s,obj,root=0): return SIM.coll('bcast',root,obj)
    def Bcast(s,buf,root=0): return SIM.coll('Bcast',root,buf)
    def allgather(s,obj): return SIM.coll('allgather',None,obj)
    def allreduce(s,obj,op=SUM): return SIM.coll('allreduce',op,obj)
    def Barrier(s): return SIM.coll('barrier',None,None)
    barrier=Barrier
m=types.ModuleType('mpi4py'); M=types.ModuleType('mpi4py.MPI')
M.COMM_WORLD=Comm(); M.SUM=SUM; M.MAX=MAX; m.MPI=M
sys.modules['mpi4py']=m; sys.modules['mpi4py.MPI']=M
sys.path.insert(0,'/scratch/b')
import enspara
logging.disable(logging.CRITICAL)
from enspara import mpi, ra
from enspara.cluster import kcenters, hybrid, util


import tempfile, os, shutil
from enspara.apps import cluster as capp
def app_trial(seed,n):
    global SIM
    rs=np.random.RandomState(seed)
    ntraj=rs.randint(n,2*n+2); lengths=rs.randint(1,7,size=ntraj)
    d=tempfile.mkdtemp(dir='/scratch')
    files=[]
    for i,l in enumerate(lengths):
        fn=os.path.join(d,'f%02d.npy'%i); np.save(fn,rs.rand(l,2)); files.append(fn)
    X=np.concatenate([np.load(f) for f in files])
    serial=kcenters.kcenters(X,'euclidean',n_clusters=3)
    argv=['','--features']+files+['--cluster-number','3','--cluster-distance','euclidean','--algorithm','kcenters',
          '--distances',d+'/dist.h5','--assignments',d+'/assig.h5','--center-features',d+'/ctr.npy','--center-indices',d+'/inds.npy']
    SIM=Sim(n,seed); capp.mpi_mode=(n>1)
    def fn(r): return capp.main(list(argv))
    try:
        outs=SIM.run(fn)
    finally:
        SIM=None
    dist=ra.load(d+'/dist.h5'); assig=ra.load(d+'/assig.h5'); inds=np.load(d+'/inds.npy')
    flat=lambda x: x._data if hasattr(x,'_data') else np.asarray(x).ravel()
    ok=np.array_equal(flat(dist),serial.distances) and np.array_equal(flat(assig),serial.assignments)
    gi=[int(sum(lengths[:t])+f) for t,f in inds]
    ok=ok and gi==[int(c) for c in serial.center_indices]
    shutil.rmtree(d)
    return ok,lengths
for s in range(30):
    n=1+s%4
    try:
        ok,l=app_trial(s,n)
        if not ok: print('seed',s,'n',n,'MISMATCH',l)
    except Exception as e:
        print('seed',s,'n',n,'EXC',type(e).__name__,str(e)[:160])
print('done')
