import sys, types, threading, pickle, random, time, logging
import numpy as np

class Mismatch(Exception): pass
class Deadlock(Exception): pass

class Op:
    def __init__(s,name,f): s.name=name; s.f=f
    def __call__(s,a,b): return s.f(a,b)
SUM=Op('SUM',lambda a,b:a+b); MAX=Op('MAX',lambda a,b:max(a,b))

class Sim:
    def __init__(self, n, seed):
        self.n=n; self.rng=random.Random(seed)
        self.cur=None
        self.ev=[threading.Event() for _ in range(n)]
        self.sched_ev=threading.Event()
        self.pending={}   # rank -> (kind, args)
        self.results={}
        self.done=set(); self.err={}
        self.trace=[]
    # called in rank thread
    def _yield(self):
        r=self.cur
        self.sched_ev.set()
        self.ev[r].wait(); self.ev[r].clear()
    def coll(self, kind, meta, payload):
        r=self.cur
        self.pending[r]=(kind,meta,payload)
        self._yield()
        return self.results.pop(r)
    def run(self, fn):
        outs=[None]*self.n
        def body(r):
            self.ev[r].wait(); self.ev[r].clear()
            try: outs[r]=fn(r)
            except BaseException as e: self.err[r]=e
            self.done.add(r)
            self.sched_ev.set()
        ths=[threading.Thread(target=body,args=(r,),daemon=True) for r in range(self.n)]
        for t in ths: t.start()
        runnable=set(range(self.n))
        while True:
            if self.err: break
            if runnable:
                r=self.rng.choice(sorted(runnable)); runnable.discard(r)
                self.cur=r; self.trace.append(r)
                self.sched_ev.clear(); self.ev[r].set(); self.sched_ev.wait()
                continue
            waiting=set(self.pending)
            if len(self.done)==self.n: break
            if waiting|self.done!=set(range(self.n)): raise RuntimeError('lost')
            if self.done and waiting: raise Deadlock((sorted(self.done),{r:self.pending[r][:2] for r in waiting}))
            kinds={self.pending[r][:2] for r in waiting}
            if len(kinds)!=1: raise Mismatch({r:self.pending[r][:2] for r in waiting})
            kind,meta=kinds.pop()
            pl=[self.pending[r][2] for r in range(self.n)]
            cp=lambda o: pickle.loads(pickle.dumps(o))
            if kind=='bcast':
                for r in range(self.n): self.results[r]= pl[meta] if r==meta else cp(pl[meta])
            elif kind=='Bcast':
                src=pl[meta]
                for r in range(self.n):
                    if r!=meta:
                        assert pl[r].nbytes==src.nbytes,(pl[r].nbytes,src.nbytes)
                        pl[r].reshape(-1).view(np.uint8)[:]=np.ascontiguousarray(src).reshape(-1).view(np.uint8)
                    self.results[r]=None
            elif kind=='allgather':
                for r in range(self.n): self.results[r]=[cp(x) for x in pl]
            elif kind=='allreduce':
                order=list(range(self.n)); 
                acc=cp(pl[order[0]])
                for k in order[1:]: acc=meta(acc,cp(pl[k]))
                for r in range(self.n): self.results[r]=cp(acc)
            elif kind=='barrier':
                for r in range(self.n): self.results[r]=None
            self.pending.clear(); runnable=set(range(self.n))
        if self.err: raise list(self.err.values())[0]
        return outs

SIM=None
class Comm:
    def Get_rank(s): return 0 if SIM is None else SIM.cur
    def Get_size(s): return 1 if SIM is None else SIM.n
    def bcast(s,obj,root=0): return SIM.coll('bcast',root,obj)
    def Bcast(s,buf,root=0): return SIM.coll('Bcast',root,buf)
    def allgather(s,obj): return SIM.coll('allgather',None,obj)
    def allreduce(s,obj,op=SUM): return SIM.coll('allreduce',op,obj)
    def Barrier(s): return SIM.coll('barrier',None,None)
    barrier=Barrier
m=types.ModuleType('mpi4py'); M=types.ModuleType('mpi4py.MPI')
M.COMM_WORLD=Comm(); M.SUM=SUM; M.MAX=MAX; m.MPI=M
sys.modules['mpi4py']=m; sys.modules['mpi4py.MPI']=M
sys.path.insert(0,'/scratch/b')
import enspara
logging.disable(logging.CRITICAL)
from enspara import mpi, ra
from enspara.cluster import kcenters, hybrid, util


def inv(X,ctr,lab,dist):
    D=np.sqrt(((X[:,None,:]-X[ctr][None,:,:])**2).sum(-1))
    p=[]
    if not np.allclose(dist,D[np.arange(len(X)),lab],atol=1e-12): p.append('dist')
    if np.any(D.min(1)<dist-1e-12): p.append('closer')
    if lab.min()<0 or lab.max()>=len(ctr): p.append('range')
    if not np.array_equal(lab[ctr],np.arange(len(ctr))): p.append('ownlabel')
    if np.any(dist[ctr]!=0): p.append('ctrdist')
    return p
def trial(seed,n,iters):
    global SIM
    rs=np.random.RandomState(seed)
    ntraj=rs.randint(n, 3*n+1)
    lengths=list(rs.randint(1,8,size=ntraj)); 
    if len(set(lengths))==1: lengths[0]+=1
    # avoid known assemble defect: make per-rank lengths not all-equal groups of >=2 -> just use distinct-ish lengths
    X=rs.rand(sum(lengths),2)
    rag=ra.RaggedArray(X,lengths=lengths)
    k=rs.randint(1,5)
    SIM=Sim(n,seed)
    def fn(r):
        local=np.concatenate([np.asarray(rag[i]) for i in range(r,ntraj,n)])
        res=hybrid.hybrid(local,'euclidean',n_clusters=k,n_iters=iters,mpi_mode=True,random_state=seed)
        d=mpi.ops.assemble_striped_ragged_array(res.distances,lengths)
        a=mpi.ops.assemble_striped_ragged_array(res.assignments,lengths)
        c=mpi.ops.convert_local_indices(res.center_indices,lengths)
        return d,a,[int(x) for x in c]
    try: outs=SIM.run(fn)
    finally: SIM=None
    return X,outs
import collections
cnt=collections.Counter()
for s in range(300):
    n=1+s%5
    costs=[]
    for it in (0,1,2,3):
        try:
            X,outs=trial(s,n,it)
        except Exception as e:
            cnt[(type(e).__name__,str(e)[:60])]+=1; break
        d,a,c=outs[0]
        same=all(np.array_equal(o[0],d) and np.array_equal(o[1],a) and o[2]==c for o in outs)
        p=inv(X,np.array(c),a.astype(int),d)
        if not same: p.append('ranks-differ')
        costs.append(np.mean(d**2))
        if p: cnt[tuple(p)]+=1; print('seed',s,'n',n,'iters',it,p); break
    else:
        if any(costs[i+1]>costs[i]+1e-12 for i in range(len(costs)-1)): cnt['cost-up']+=1; print('cost up',s,n,costs)
        cnt['ok']+=1
print(cnt)
