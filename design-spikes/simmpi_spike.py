import sys, types, threading, pickle, random, time, logging
import numpy as np

class Mismatch(Exception): pass
class Deadlock(Exception): pass

class Op:
    def __init__(s,name,f): s.name=name; s.f=f
    def __call__(s,a,b): return s.f(a,b)
SUM=Op('SUM',lambda a,b:a+b); MAX=Op('MAX',lambda a,b:max(a,b))

class Sim:
    def __init__(self, n, seed):
        self.n=n; self.rng=random.Random(seed)
        self.cur=None
        self.ev=[threading.Event() for _ in range(n)]
        self.sched_ev=threading.Event()
        self.pending={}   # rank -> (kind, args)
        self.results={}
        self.done=set(); self.err={}
        self.trace=[]
    # called in rank thread
    def _yield(self):
        r=self.cur
        self.sched_ev.set()
        self.ev[r].wait(); self.ev[r].clear()
    def coll(self, kind, meta, payload):
        r=self.cur
        self.pending[r]=(kind,meta,payload)
        self._yield()
        return self.results.pop(r)
    def run(self, fn):
        outs=[None]*self.n
        def body(r):
            self.ev[r].wait(); self.ev[r].clear()
            try: outs[r]=fn(r)
            except BaseException as e: self.err[r]=e
            self.done.add(r)
            self.sched_ev.set()
        ths=[threading.Thread(target=body,args=(r,),daemon=True) for r in range(self.n)]
        for t in ths: t.start()
        runnable=set(range(self.n))
        while True:
            if self.err: break
            if runnable:
                r=self.rng.choice(sorted(runnable)); runnable.discard(r)
                self.cur=r; self.trace.append(r)
                self.sched_ev.clear(); self.ev[r].set(); self.sched_ev.wait()
                continue
            waiting=set(self.pending)
            if len(self.done)==self.n: break
            if waiting|self.done!=set(range(self.n)): raise RuntimeError('lost')
            if self.done and waiting: raise Deadlock((sorted(self.done),{r:self.pending[r][:2] for r in waiting}))
            kinds={self.pending[r][:2] for r in waiting}
            if len(kinds)!=1: raise Mismatch({r:self.pending[r][:2] for r in waiting})
            kind,meta=kinds.pop()
            pl=[self.pending[r][2] for r in range(self.n)]
            cp=lambda o: pickle.loads(pickle.dumps(o))
            if kind=='bcast':
                for r in range(self.n): self.results[r]= pl[meta] if r==meta else cp(pl[meta])
            elif kind=='Bcast':
                src=pl[meta]
                for r in range(self.n):
                    if r!=meta:
                        assert pl[r].nbytes==src.nbytes,(pl[r].nbytes,src.nbytes)
                        pl[r].reshape(-1).view(np.uint8)[:]=np.ascontiguousarray(src).reshape(-1).view(np.uint8)
                    self.results[r]=None
            elif kind=='allgather':
                for r in range(self.n): self.results[r]=[cp(x) for x in pl]
            elif kind=='allreduce':
                order=list(range(self.n)); 
                acc=cp(pl[order[0]])
                for k in order[1:]: acc=meta(acc,cp(pl[k]))
                for r in range(self.n): self.results[r]=cp(acc)
            elif kind=='barrier':
                for r in range(self.n): self.results[r]=None
            self.pending.clear(); runnable=set(range(self.n))
        if self.err: raise list(self.err.values())[0]
        return outs

SIM=None
class Comm:
    def Get_rank(s): return 0 if SIM is None else SIM.cur
    def Get_size(s): return 1 if SIM is None else SIM.n
    def bcast(s,obj,root=0): return SIM.coll('bcast',root,obj)
    def Bcast(s,buf,root=0): return SIM.coll('Bcast',root,buf)
    def allgather(s,obj): return SIM.coll('allgather',None,obj)
    def allreduce(s,obj,op=SUM): return SIM.coll('allreduce',op,obj)
    def Barrier(s): return SIM.coll('barrier',None,None)
    barrier=Barrier
m=types.ModuleType('mpi4py'); M=types.ModuleType('mpi4py.MPI')
M.COMM_WORLD=Comm(); M.SUM=SUM; M.MAX=MAX; m.MPI=M
sys.modules['mpi4py']=m; sys.modules['mpi4py.MPI']=M
sys.path.insert(0,'/scratch/b')
import enspara
logging.disable(logging.CRITICAL)
from enspara import mpi, ra
from enspara.cluster import kcenters, hybrid, util

def trial(seed, n):
    global SIM
    rs=np.random.RandomState(seed)
    ntraj=rs.randint(n, 3*n+1)
    lengths=rs.randint(1,8,size=ntraj)
    X=rs.rand(lengths.sum(),2)
    rag=ra.RaggedArray(X,lengths=lengths)
    k=rs.randint(1,6)
    serial=hybrid.hybrid(X,'euclidean',n_clusters=k,n_iters=0)
    SIM=Sim(n,seed)
    def fn(r):
        local=np.concatenate([rag[i] for i in range(r,ntraj,n)])
        res=hybrid.hybrid(local,'euclidean',n_clusters=k,n_iters=0,mpi_mode=True,random_state=seed)
        d=mpi.ops.assemble_striped_ragged_array(res.distances,lengths)
        a=mpi.ops.assemble_striped_ragged_array(res.assignments,lengths)
        c=mpi.ops.convert_local_indices(res.center_indices,lengths)
        return d,a,c
    outs=SIM.run(fn); tr=len(SIM.trace); SIM=None
    return serial,outs,tr

t=time.time(); N=100; steps=0
for s in range(N):
    n=1+s%5
    try:
        serial,outs,st=trial(s,n); steps+=st
    except Exception as e:
        print('seed',s,'n',n,'EXC',type(e).__name__,str(e)[:200]); continue
    d,a,c=outs[0]
    ok=all(np.array_equal(o[0],serial.distances) and np.array_equal(o[1],serial.assignments) and list(o[2])==list(serial.center_indices) for o in outs)
    if not ok: print('seed',s,'n',n,'DIFF',serial.center_indices,c)
print('runs/s',N/(time.time()-t),'steps',steps)
