import sys,types,logging,warnings,random,pickle,ctypes,os,tempfile,shutil,math
m=types.ModuleType('mpi4py');M=types.ModuleType('mpi4py.MPI')
class C:
    def Get_rank(s):return 0
    def Get_size(s):return 1
M.COMM_WORLD=C();m.MPI=M;sys.modules['mpi4py']=m;sys.modules['mpi4py.MPI']=M
sys.path.insert(0,'/scratch/b')
import numpy as np, mdtraj as md
warnings.simplefilter('ignore')
import enspara; logging.disable(logging.CRITICAL)
from enspara.util import load as L
import multiprocessing as real_mp, multiprocessing.util

class AsyncResult:
    def __init__(s,pool,n): s.pool=pool; s.res=[None]*n; s.left=n; s.exc=None
    def get(s,timeout=None):
        s.pool._drain(s)
        if s.exc is not None: raise s.exc
        return s.res
    def wait(s,timeout=None): s.pool._drain(s)
    def ready(s): return s.left==0
class SimPool:
    def __init__(s,processes=None,initializer=None,initargs=(),maxtasksperchild=None,mod=None,rng=None):
        s.rng=rng or SIMRNG; s.n=processes or s.rng.randint(1,8); s.mod=L
        s.closed=False; s.terminated=False; s.queue=[]   # (asyncres, idxs, func, items, star)
        s.parent=dict(s.mod.__dict__)
        s.overlay=[{} for _ in range(s.n)]
        if initializer:
            for w in range(s.n): s._in_worker(w, lambda: initializer(*initargs))
    def _in_worker(s,w,thunk):
        d=s.mod.__dict__; before=dict(d)
        d.update(s.overlay[w])
        try: return thunk()
        finally:
            after=dict(d)
            for k,v in after.items():
                if k not in before or before[k] is not v: s.overlay[w][k]=v
            for k in list(d.keys()):
                if k not in before: del d[k]
            for k,v in before.items(): d[k]=v
    def _submit(s,func,items,star):
        if s.closed: raise ValueError('Pool not running')
        items=list(items); n=len(items); ar=AsyncResult(s,n)
        cs,extra=divmod(n,s.n*4); cs+=1 if extra else 0; cs=max(cs,1)
        for lo in range(0,n,cs): s.queue.append((ar,list(range(lo,min(n,lo+cs))),func,items,star))
        return ar
    def _drain(s,ar):
        while ar.left>0:
            k=s.rng.randrange(len(s.queue)); a,idxs,func,items,star=s.queue.pop(k); w=s.rng.randrange(s.n)
            TRACE.append((w,idxs[0]))
            for i in idxs:
                arg=pickle.loads(pickle.dumps(items[i]))
                try:
                    r=s._in_worker(w,(lambda: func(*arg)) if star else (lambda: func(arg)))
                    a.res[i]=pickle.loads(pickle.dumps(r))
                except Exception as e:
                    if a.exc is None: a.exc=e
                a.left-=1
    def map(s,f,it,chunksize=None): return s._submit(f,it,False).get()
    def starmap(s,f,it,chunksize=None): return s._submit(f,it,True).get()
    def map_async(s,f,it,chunksize=None,callback=None,error_callback=None): return s._submit(f,it,False)
    def close(s): s.closed=True
    def terminate(s): s.closed=True; s.terminated=True; s.queue.clear()
    def join(s):
        if not s.closed: raise ValueError('Pool is still running')
        while s.queue: s._drain(s.queue[0][0])
    def __enter__(s): return s
    def __exit__(s,*a): s.terminate()
class SimMP:
    Pool=SimPool; Array=staticmethod(real_mp.Array); util=real_mp.util; cpu_count=staticmethod(lambda:4)
L.mp=SimMP

top=md.Topology(); ch=top.add_chain()
for i in range(5):
    r=top.add_residue('ALA',ch); top.add_atom('CA',md.element.carbon,r)
d=tempfile.mkdtemp(dir='/scratch'); ok=0; N=200
for seed in range(N):
    SIMRNG=random.Random(seed); TRACE=[]
    rs=np.random.RandomState(seed); nf=rs.randint(1,7); ext=['xtc','dcd','h5'][seed%3]
    files=[]; 
    for i in range(nf):
        fn=os.path.join(d,'s%d_%d.%s'%(seed,i,ext)); md.Trajectory(rs.rand(rs.randint(1,9),5,3).astype('float32'),top).save(fn); files.append(fn)
    stride=int(rs.randint(1,4)); sel=np.sort(rs.choice(5,size=rs.randint(1,6),replace=False))
    kw=dict(top=top,stride=stride,atom_indices=sel) if ext!='h5' else dict(stride=stride,atom_indices=sel)
    exp=[md.load(f,**kw).xyz for f in files]
    lengths,xyz=L.load_as_concatenated(files,processes=None,**kw)
    good = list(lengths)==[len(e) for e in exp] and np.array_equal(xyz,np.concatenate(exp)) and 'shared_array' not in L.__dict__
    ok+=good
    if not good: print('seed',seed,'BAD',lengths,[len(e) for e in exp])
    for f in files: os.remove(f)
shutil.rmtree(d); print('ok',ok,'/',N,'last trace',TRACE[:6])
