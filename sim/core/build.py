"""Stage /repo's working tree and build it against the simulator runtime.

Nothing is installed and /repo is never written.  The staged tree lives under
/verif/.build/stage-<digest>/ and is reused while the digest of the copied
sources is unchanged.  Compiled kernels are cached per .pyx digest.
"""
import fcntl
import hashlib
import os
import shutil
import subprocess
import sys
import sysconfig
import time

VERIF = os.path.dirname(os.path.dirname(os.path.dirname(os.path.abspath(__file__))))
REPO = os.environ.get('VERIF_REPO', '/repo')
BUILD = os.path.join(VERIF, '.build')
NATIVE_SRC = os.path.join(VERIF, 'sim', 'native')
NATIVE = os.path.join(BUILD, 'native')
CACHE = os.path.join(BUILD, 'cache')
PY = sys.executable
EXTS = ('.py', '.pyx', '.pxd', '.json', '.yml', '.yaml')
SKIP_DIRS = {'test', 'data', '__pycache__'}
KERNELS = {  # module path -> uses OpenMP
    'enspara/geometry/libdist.pyx': True,
    'enspara/info_theory/libinfo.pyx': True,
    'enspara/msm/libmsm.pyx': False,
}


class BuildError(Exception):
    pass


def _run(cmd, cwd=None):
    p = subprocess.run(cmd, cwd=cwd, stdout=subprocess.PIPE, stderr=subprocess.STDOUT, text=True)
    if p.returncode != 0:
        raise BuildError('command failed: %s\n%s' % (' '.join(cmd), p.stdout[-4000:]))
    return p.stdout


def _digest_file(path):
    h = hashlib.blake2b(digest_size=16)
    with open(path, 'rb') as f:
        h.update(f.read())
    return h.hexdigest()


def _includes():
    import numpy
    return ['-I' + sysconfig.get_paths()['include'], '-I' + numpy.get_include()]


def build_native(force=False):
    os.makedirs(NATIVE, exist_ok=True)
    srcs = [os.path.join(NATIVE_SRC, f) for f in ('simrt.c', 'simnative.c')]
    stamp = os.path.join(NATIVE, 'stamp')
    want = ''.join(_digest_file(s) for s in srcs)
    have = open(stamp).read() if os.path.exists(stamp) else ''
    rt = os.path.join(NATIVE, 'libsimrt.so')
    ext = os.path.join(NATIVE, '_simnative.so')
    if not force and have == want and os.path.exists(rt) and os.path.exists(ext):
        return NATIVE
    _run(['gcc', '-O2', '-g', '-fPIC', '-shared', '-Wall', '-o', rt + '.tmp', srcs[0], '-lpthread'])
    os.replace(rt + '.tmp', rt)
    _run(['gcc', '-O2', '-fPIC', '-shared', '-Wall'] + _includes() +
         ['-o', ext + '.tmp', srcs[1], '-L' + NATIVE, '-lsimrt', '-Wl,-rpath,' + NATIVE])
    os.replace(ext + '.tmp', ext)
    with open(stamp, 'w') as f:
        f.write(want)
    return NATIVE


def _source_files():
    root = os.path.join(REPO, 'enspara')
    out = []
    for d, dirs, files in os.walk(root):
        dirs[:] = sorted(x for x in dirs if x not in SKIP_DIRS)
        for f in sorted(files):
            if f.endswith(EXTS):
                full = os.path.join(d, f)
                out.append((os.path.relpath(full, REPO), full))
    return out


BUILD_RECIPE = b'recipe-4: kernels linked with --wrap of PyGILState_Ensure/Release and PyEval_SaveThread/RestoreThread'


def source_digest():
    h = hashlib.blake2b(digest_size=10)
    h.update(BUILD_RECIPE)          # a stage built by an older recipe is not reused
    for rel, full in _source_files():
        h.update(rel.encode())
        h.update(b'\0')
        with open(full, 'rb') as f:
            h.update(f.read())
        h.update(b'\0')
    return h.hexdigest()


def _build_kernel(rel, full, stage):
    """cythonize + compile one .pyx; cached on the digest of the .pyx and of
    every .pxd next to it."""
    openmp = KERNELS[rel]
    h = hashlib.blake2b(digest_size=12)
    h.update(open(full, 'rb').read())
    h.update(b'omp+gilwrap3' if openmp else b'noomp')
    h.update(_digest_file(os.path.join(NATIVE_SRC, 'simrt.c')).encode()[:0])  # ABI is by symbol name only
    key = h.hexdigest()
    modname = os.path.splitext(os.path.basename(rel))[0]
    cdir = os.path.join(CACHE, modname + '-' + key)
    so = os.path.join(cdir, modname + '.so')
    if not os.path.exists(so):
        os.makedirs(cdir, exist_ok=True)
        # cythonize inside a private copy so the generated C never lands in /repo
        pk = os.path.join(cdir, 'src', os.path.dirname(rel))
        os.makedirs(pk, exist_ok=True)
        pyx = os.path.join(pk, os.path.basename(rel))
        shutil.copy(full, pyx)
        _run([PY, '-m', 'cython', '-3', '--module-name', rel[:-4].replace('/', '.'), pyx, '-o',
              os.path.join(cdir, modname + '.c')])
        cflags = ['-O2', '-fPIC', '-shared', '-Wno-unreachable-code', '-Wno-unused-function', '-w']
        if openmp:
            cflags.append('-fopenmp')
        # PyGILState_Ensure is routed through the simulated runtime, which records a GIL acquisition inside a parallel
        # region as a synchronisation construct (a `with gil:` block is a critical section)
        link = ['-L' + NATIVE, '-lsimrt', '-Wl,-rpath,' + NATIVE, '-Wl,--wrap=PyGILState_Ensure', '-Wl,--wrap=PyGILState_Release',
                '-Wl,--wrap=PyEval_SaveThread', '-Wl,--wrap=PyEval_RestoreThread'] if openmp else []
        # note: no -fopenmp at link time, so libgomp is not pulled in; the GOMP_*
        # symbols resolve to libsimrt.
        _run(['gcc'] + cflags + _includes() + ['-o', so + '.tmp', os.path.join(cdir, modname + '.c')] + link + ['-lm'])
        os.replace(so + '.tmp', so)
        shutil.rmtree(os.path.join(cdir, 'src'), ignore_errors=True)
    dst = os.path.join(stage, os.path.dirname(rel), modname + '.so')
    shutil.copy(so, dst)


def _prune(keep):
    try:
        stages = sorted((d for d in os.listdir(BUILD) if d.startswith('stage-') and not d.endswith('.tmp')),
                        key=lambda d: os.path.getmtime(os.path.join(BUILD, d)))
    except OSError:
        return
    now = time.time()
    for d in stages[:-4]:
        # never under a check that may still be running from it (every check touches its stage when it starts)
        if d != os.path.basename(keep) and now - os.path.getmtime(os.path.join(BUILD, d)) > 2 * 3600:
            shutil.rmtree(os.path.join(BUILD, d), ignore_errors=True)
    try:
        caches = sorted(os.listdir(CACHE), key=lambda d: os.path.getmtime(os.path.join(CACHE, d)))
        for d in caches[:-12]:
            shutil.rmtree(os.path.join(CACHE, d), ignore_errors=True)
    except OSError:
        pass


def stage(verbose=False):
    """Return (stage_dir, digest).  Safe to call from concurrent processes."""
    os.makedirs(BUILD, exist_ok=True)
    os.makedirs(CACHE, exist_ok=True)
    t0 = time.time()
    with open(os.path.join(BUILD, 'lock'), 'w') as lk:
        fcntl.flock(lk, fcntl.LOCK_EX)
        build_native()
        dig = source_digest()
        sdir = os.path.join(BUILD, 'stage-' + dig)
        if os.path.exists(os.path.join(sdir, 'OK')):
            os.utime(sdir)
            return sdir, dig
        tmp = sdir + '.tmp'
        shutil.rmtree(tmp, ignore_errors=True)
        for rel, full in _source_files():
            dst = os.path.join(tmp, rel)
            os.makedirs(os.path.dirname(dst), exist_ok=True)
            shutil.copy(full, dst)
        from concurrent.futures import ThreadPoolExecutor
        with ThreadPoolExecutor(3) as ex:
            futs = [ex.submit(_build_kernel, rel, full, tmp) for rel, full in _source_files() if rel in KERNELS]
            for f in futs:
                f.result()
        for rel in KERNELS:
            if not os.path.exists(os.path.join(REPO, rel)):
                raise BuildError('kernel source missing: ' + rel)
        with open(os.path.join(tmp, 'OK'), 'w') as f:
            f.write(dig)
        shutil.rmtree(sdir, ignore_errors=True)
        os.replace(tmp, sdir)
        _prune(sdir)
        if verbose:
            print('staged %s in %.1fs' % (sdir, time.time() - t0))
        return sdir, dig


if __name__ == '__main__':
    d, g = stage(verbose=True)
    print(d)
