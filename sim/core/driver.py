"""Batch driver: seeded runs over forked workers, evidence, violations, replay."""
import faulthandler
import importlib
import json
import os
import re
import sys
import time

from .tape import derive_seed
from . import run as runmod
from .minimise import minimise

VERIF = os.path.dirname(os.path.dirname(os.path.dirname(os.path.abspath(__file__))))
EVIDENCE = os.environ.get('VERIF_EVIDENCE_DIR') or os.path.join(VERIF, 'evidence')
REPLAYS = os.path.join(VERIF, 'replays')
KNOWN = os.environ.get('VERIF_KNOWN_FILE') or os.path.join(VERIF, 'known_findings.json')

_PROP = None
_TIER = None
_BATCH_SEED = None


def load_prop(pid):
    return importlib.import_module('sim.props.' + pid.lower())


def load_known(pid):
    try:
        with open(KNOWN) as f:
            data = json.load(f)
    except FileNotFoundError:
        return []
    return [k for k in data.get('findings', []) if k.get('property') == pid and k.get('status') == 'open']


def match_known(known, vclass, detail):
    for k in known:
        if k.get('class') == vclass and re.search(k['match'], detail or ''):
            return k
    return None


def _run_chunk(indices):
    prop = _PROP
    seeds = [derive_seed(_BATCH_SEED, prop.ID, i) for i in indices]
    out = runmod.run_sequence(prop, [(sd, None, i) for sd, i in zip(seeds, indices)], _TIER)
    for k, (r, i) in enumerate(zip(out, indices)):
        if r.status == 'ok' or r.status == 'skip':
            r.tape = None if (i % 997) else r.tape
            if i >= 3:
                r.scenario = None
        else:
            r.extra = seeds[:k]            # the runs that preceded it in this process
    return out


def _init(pid, tier, batch_seed):
    """start-up shared by the batch driver and by replay: identical steps in identical order, then the zygote"""
    global _PROP, _TIER, _BATCH_SEED
    from . import env
    env.boot()
    import signal as _sg
    faulthandler.register(_sg.SIGUSR1, all_threads=True)
    prop = load_prop(pid)
    if hasattr(prop, 'setup'):
        prop.setup()
    _PROP, _TIER, _BATCH_SEED = prop, tier, batch_seed
    return prop, _start_zygote(prop)


def _sweep_stale_scratch():
    """scratch directories of earlier invocations that were killed before they could clean up"""
    import shutil
    root = os.path.join(VERIF, '.build', 'run')
    try:
        now = time.time()
        for d in os.listdir(root):
            full = os.path.join(root, d)
            if now - os.path.getmtime(full) > 3600:
                shutil.rmtree(full, ignore_errors=True)
    except OSError:
        pass


def _start_zygote(prop):
    """called at the same point of start-up by the batch driver and by replay, so both fork their runs from the same image"""
    from . import zygote
    _sweep_stale_scratch()
    runmod.set_iso_prop(prop)
    zygote.register('chunk', _run_chunk)
    faulthandler.enable()
    return zygote.start(os.path.join(VERIF, '.build', 'run'))


def _recover_crashed_chunk(indices, status):
    """a chunk child died: find the run that kills the interpreter (each run alone, in its own child)"""
    out = []
    prop = _PROP
    for i in indices:
        seed = derive_seed(_BATCH_SEED, prop.ID, i)
        res = runmod.execute_isolated(prop, [], seed, _TIER)
        res.index = i
        if res.status == 'violation' and res.vclass == 'interpreter_crash':
            res.tape = {'__seed__': [seed]}          # the tape cannot be recovered after a crash: replay by seed
        if res.status in ('ok', 'skip'):
            res.tape = None
            res.scenario = None
        else:
            res.extra = []
        out.append(res)
    if not any(x.status == 'violation' for x in out):
        out[0].status, out[0].vclass = 'harness_error', 'chunk_crash'
        out[0].detail = 'worker chunk %s died (status %s) but no single run reproduces it' % (indices[:3], status)
    return out


def _minimise_and_write(prop, r, tier, deadline=None):
    os.makedirs(REPLAYS, exist_ok=True)
    t0 = time.time()
    prefix = list(r.extra or [])
    if r.vclass in ('no_progress', 'interpreter_crash'):   # re-executions are expensive / uninformative: do not minimise
        tape, last, n = None, None, 0
    else:
        tape, prefix2, last, n = minimise(prop, r.tape, r.vclass, tier, prefix=prefix, deadline=deadline, seed=r.seed)
        if last is not None:
            prefix = prefix2
    reproduced = last is not None
    if not reproduced:
        tape, last = r.tape, r
    if r.vclass in ('no_progress', 'interpreter_crash'):
        stable = None
    else:
        if tape and '__seed__' in tape:
            chk = runmod.execute_isolated(prop, prefix, tape['__seed__'][0], tier, replay=None, wall_limit=60)
        else:
            chk = runmod.execute_isolated(prop, prefix, 0, tier, replay=tape, wall_limit=60)
        stable = chk.status == 'violation' and chk.vclass == r.vclass and chk.digest == last.digest
    path = os.path.join(REPLAYS, '%s-%d.json' % (prop.ID, r.seed))
    with open(path, 'w') as f:
        json.dump({
            'property': prop.ID, 'tier': tier, 'seed': r.seed, 'run_index': r.index,
            'tape': tape, 'prefix_seeds': prefix, 'scenario': last.scenario,
            'violation': {'class': last.vclass, 'detail': last.detail},
            'event_log_digest': last.digest,
            'original': {'class': r.vclass, 'detail': r.detail, 'tape_len': sum(len(v) for v in (r.tape or {}).values()),
                         'prefix_len': len(r.extra or [])},
            'minimised': {'executions': n, 'tape_len': sum(len(v) for v in (tape or {}).values()), 'prefix_len': len(prefix),
                          'reproduced': reproduced, 'replay_stable': stable, 'wall_s': round(time.time() - t0, 2)},
            'staged_source_digest': _stage_digest(),
        }, f, indent=1, default=str)
    return path, last, stable


def _stage_digest():
    from . import env
    return env.DIGEST


def run_check(pid, tier, batch_seed=None, nproc=None, runs=None, time_budget=None):
    """Returns the process exit code."""
    global _PROP, _TIER, _BATCH_SEED
    from . import env
    t0 = time.time()
    if batch_seed is None:
        batch_seed = int(os.environ.get('VERIF_SEED', '0') or 0)
    prop, z = _init(pid, tier, batch_seed)
    nproc = nproc or int(os.environ.get('VERIF_NPROC', '0') or 0) or min(16, os.cpu_count() or 1)
    budget = prop.BUDGET[tier]
    n_runs = runs or int(os.environ.get('VERIF_RUNS', '0') or 0) or budget['runs']
    wall = time_budget or float(os.environ.get('VERIF_WALL', '0') or 0) or budget['wall_s']
    _PROP, _TIER, _BATCH_SEED = prop, tier, batch_seed
    print('[%s] seed=%d tier=%s runs<=%d wall<=%ss nproc=%d stage=%s' %
          (pid, batch_seed, tier, n_runs, wall, nproc, env.DIGEST), flush=True)
    known = load_known(pid)
    chunk = budget.get('chunk', 25)
    chunks = [list(range(s, min(n_runs, s + chunk))) for s in range(0, n_runs, chunk)]
    results = []
    harness_errors = []
    violations = []
    stopped_early = False
    pending = {}
    it = iter(chunks)

    def submit_more():
        nonlocal stopped_early
        while len(pending) < nproc:
            if time.time() - t0 > wall:
                stopped_early = True
                return
            try:
                c = next(it)
            except StopIteration:
                return
            pending[z.submit('chunk', (c,))] = c

    def handle(rs):
        for r in rs:
            results.append(r)
            if r.status == 'violation':
                violations.append(r)
            elif r.status == 'harness_error':
                harness_errors.append((r.index, r.vclass, r.detail))
    crashed = []
    submit_more()
    while pending:
        got = z.wait_any(600)
        if got is None:
            harness_errors.append(('driver', 'no progress for 600 s; outstanding chunks %s' % [c[:2] for c in pending.values()]))
            break
        rid, status, rs = got
        c = pending.pop(rid)
        if rs is None or status != 0:
            crashed.append((c, status))
        else:
            handle(rs)
        fresh = [v for v in violations if match_known(known, v.vclass, v.detail) is None]
        if len(fresh) >= 40 or len(harness_errors) >= 5 or any(v.vclass == 'no_progress' for v in fresh):
            stopped_early = True
            break
        submit_more()
    # let outstanding chunks finish (their results are discarded) so that nothing competes with minimisation
    drain_until = time.time() + 60
    while pending and time.time() < drain_until:
        got = z.wait_any(5)
        if got is not None:
            pending.pop(got[0], None)
    for c, status in crashed[:3]:
        handle(_recover_crashed_chunk(c, status))
    results.sort(key=lambda r: r.index)
    if os.environ.get('VERIF_DIGESTS'):
        with open(os.environ['VERIF_DIGESTS'], 'w') as f:
            json.dump([[r.index, r.digest, r.status, r.fingerprint] for r in results], f)
    # ---- classify violations ------------------------------------------------
    exit_code = 0
    known_hit = {}
    new_by_class = {}
    for v in sorted(violations, key=lambda r: r.index):
        k = match_known(known, v.vclass, v.detail)
        if k is not None:
            known_hit.setdefault(k['id'], [k, 0])[1] += 1
        else:
            new_by_class.setdefault(v.vclass, []).append(v)
    for kid, (k, n) in sorted(known_hit.items()):
        print('KNOWN-FINDING: property=%s %s (hit in %d runs)' % (pid, k['what'], n))
    replay_paths = []
    # minimisation is bounded: at most ~25 s per violation class and ~75 s in total
    t_min = time.time()
    for vclass, vs in sorted(new_by_class.items()):
        v = vs[0]
        path, last, stable = _minimise_and_write(prop, v, tier, deadline=min(time.time() + 25, t_min + 75))
        # the minimised run may itself land on a known finding's signature; keep original then
        replay_paths.append(path)
        print('  class=%s runs=%d first_index=%d detail=%s' % (vclass, len(vs), v.index, (last.detail or '')[:400]))
        print('VIOLATION property=%s replay=%s' % (pid, path), flush=True)
        exit_code = 1
    if harness_errors:
        for h in harness_errors[:5]:
            print('HARNESS-ERROR %s' % (h,), flush=True)
        if exit_code == 0:
            exit_code = 2
    write_evidence(prop, tier, batch_seed, results, time.time() - t0, len(new_by_class), known_hit, stopped_early,
                   nproc)
    try:
        from . import zygote as _z
        _z.stop()
    except Exception:
        pass
    ok = sum(1 for r in results if r.status == 'ok')
    print('[%s] runs=%d ok=%d skip=%d violations=%d known=%d harness_errors=%d wall=%.1fs exit=%d' %
          (pid, len(results), ok, sum(1 for r in results if r.status == 'skip'), len(violations) - sum(
              n for _, n in known_hit.values()), sum(n for _, n in known_hit.values()), len(harness_errors),
           time.time() - t0, exit_code), flush=True)
    return exit_code


def _merge(dicts):
    out = {}
    for d in dicts:
        for k, v in (d or {}).items():
            out[k] = out.get(k, 0) + v
    return dict(sorted(out.items()))


def write_evidence(prop, tier, seed, results, wall, n_viol_classes, known_hit, stopped_early, nproc):
    os.makedirs(EVIDENCE, exist_ok=True)
    done = [r for r in results if r.status in ('ok', 'skip', 'violation')]
    distinct = len({r.fingerprint for r in done if r.nontrivial and r.status != 'skip'})
    samples = []
    for r in results:
        if r.scenario and len(samples) < 3:
            samples.append({'run_index': r.index, 'seed': r.seed, 'status': r.status, 'scenario': r.scenario,
                            'event_log_digest': r.digest, 'tape_draws': r.ndraws})
    if not samples:
        samples = [{'note': 'no run completed'}]
    steps = sum(r.steps or 0 for r in done)
    reach = _merge(r.reach for r in done)
    ev = {
        'property_id': prop.ID,
        'tier': tier,
        'seed': seed,
        'level': 'exploration',
        'coverage': {
            'evaluations': len(done),
            'distinct_nontrivial': distinct,
            'rule': prop.RULE,
            'samples': samples,
            'skipped_outside_quantifier': sum(1 for r in done if r.status == 'skip'),
            'runs_per_hour': int(len(done) / max(wall, 1e-6) * 3600),
            'simulated_logical_steps': steps,
            'tape_draws': sum(r.ndraws or 0 for r in done),
            'distinct_interleavings': len({r.digest for r in done}),
            'faults_fired': _merge(r.faults for r in done),
            'reach_probes': reach,
            'reach_warning': [k for k in getattr(prop, 'REACH_EXPECTED', []) if not reach.get(k)],
            'counters': _merge(r.counters for r in done),
            'pure_postconditions': _merge(r.post for r in done),
            'components': getattr(prop, 'COMPONENTS', {}),
            'known_findings_hit': {k: n for k, (_, n) in known_hit.items()},
            'stopped_early': stopped_early,
            'workers': nproc,
            'staged_source_digest': _stage_digest(),
        },
        'assumptions': getattr(prop, 'ASSUMPTIONS', []),
        'wall_s': round(wall, 2),
        'violations': n_viol_classes,
    }
    extra = getattr(prop, 'evidence_extra', None)
    if extra is not None:
        ev['coverage'].update(extra(results))
    tmp = os.path.join(EVIDENCE, prop.ID + '.json.tmp')
    with open(tmp, 'w') as f:
        json.dump(ev, f, indent=1, default=str)
    os.replace(tmp, os.path.join(EVIDENCE, prop.ID + '.json'))


def replay(path):
    # the property id is taken from the file name when possible, so that nothing is parsed before the zygote exists
    m = re.match(r'(C\d+)-', os.path.basename(path))
    if m:
        prop, _ = _init(m.group(1), 'quick', 0)
        with open(path) as f:
            rec = json.load(f)
        if rec['property'] != m.group(1):
            print('replay file name and content disagree on the property')
            return 2
    else:
        with open(path) as f:
            rec = json.load(f)
        prop, _ = _init(rec['property'], 'quick', 0)
    tape = rec['tape']
    seed = 0
    if tape and '__seed__' in tape:         # crash replays are by seed (the tape could not be recovered)
        seed, tape = tape['__seed__'][0], None
    r = runmod.execute_isolated(prop, rec.get('prefix_seeds') or [], seed, rec.get('tier', 'quick'), replay=tape,
                                keep_events=True)
    print('replay status=%s class=%s digest=%s (recorded class=%s digest=%s)' %
          (r.status, r.vclass, r.digest, rec['violation']['class'], rec.get('event_log_digest')))
    print('detail:', r.detail)
    try:
        print('scenario:', json.dumps(r.scenario, default=str)[:3000])
    except BrokenPipeError:
        pass
    if r.status == 'violation':
        print('VIOLATION property=%s replay=%s' % (rec['property'], path))
        return 1
    if r.status == 'harness_error':
        return 2
    return 0
