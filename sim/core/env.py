"""Process bootstrap: pinned environment, staged enspara, fake mpi4py."""
import logging
import os
import sys

PINNED = {'PYTHONHASHSEED': '0', 'OPENBLAS_NUM_THREADS': '1', 'MKL_NUM_THREADS': '1',
          'OMP_NUM_THREADS': '1', 'NUMEXPR_NUM_THREADS': '1', 'PYTHONDONTWRITEBYTECODE': '1',
          'MPLBACKEND': 'Agg'}

STAGE = None
DIGEST = None


def ensure_pinned_env():
    # VERIF_HASHSEED lets the determinism self-test run the whole check under another hash seed
    if os.environ.get('VERIF_HASHSEED'):
        PINNED['PYTHONHASHSEED'] = os.environ['VERIF_HASHSEED']
    """Re-exec the interpreter once so that hash randomisation and BLAS
    threading are fixed before anything is imported."""
    if all(os.environ.get(k) == v for k, v in PINNED.items()):
        return
    env = dict(os.environ)
    env.update(PINNED)
    os.execve(sys.executable, [sys.executable] + sys.argv, env)


def boot(quiet=True):
    """Stage /repo, install the simulated MPI, import the staged enspara."""
    global STAGE, DIGEST
    if STAGE is not None:
        return STAGE
    from . import build
    from ..engines import simmpi
    stage, dig = build.stage()
    simmpi.install()
    sys.path.insert(0, stage)
    for k in [k for k in sys.modules if k == 'enspara' or k.startswith('enspara.')]:
        del sys.modules[k]
    import warnings
    warnings.filterwarnings('ignore')
    import enspara
    assert os.path.realpath(enspara.__file__).startswith(os.path.realpath(stage)), enspara.__file__
    if quiet:
        logging.disable(logging.CRITICAL)
    # the citation banner prints at exit on stdout: silence it
    import atexit
    from enspara.citation import citation
    atexit.unregister(citation.citation_printer)
    # import everything once in the parent, so that forked run processes start warm
    import importlib
    for m in ('enspara.cluster', 'enspara.cluster.kcenters', 'enspara.cluster.kmedoids', 'enspara.cluster.hybrid',
              'enspara.cluster.util', 'enspara.mpi', 'enspara.mpi.ops', 'enspara.mpi.io', 'enspara.ra', 'enspara.msm',
              'enspara.tpt', 'enspara.info_theory', 'enspara.info_theory.mutual_info', 'enspara.info_theory.entropy',
              'enspara.geometry.libdist', 'enspara.info_theory.libinfo', 'enspara.msm.libmsm', 'enspara.geometry.rotamer',
              'enspara.cards.disorder', 'enspara.util.load', 'mdtraj', 'tables', 'sklearn.utils', 'scipy.sparse.linalg',
              'scipy.sparse.csgraph'):
        try:
            importlib.import_module(m)
        except Exception:
            if m.startswith('enspara.') and m.count('.') == 1:
                raise
    STAGE, DIGEST = stage, dig
    return stage
