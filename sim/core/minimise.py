"""Tape minimisation: shrink a failing run while the same violation class persists."""
from .run import execute

CANON_FIRST = ('sched', 'mpi', 'gomp', 'pool', 'fault', 'poison')


def minimise(prop_mod, tape, vclass, tier='quick', budget=300, opts=None):
    """Returns (tape, result, executions)."""
    state = {'n': 0}
    best = {k: list(v) for k, v in tape.items()}

    def fails(cand):
        if state['n'] >= budget:
            return None
        state['n'] += 1
        r = execute(prop_mod, 0, tier, replay=cand, wall_limit=60, opts=opts)
        if r.status == 'violation' and r.vclass == vclass:
            return r
        return None

    last = fails(best)
    if last is None:
        return None, None, state['n']
    best = {k: list(v) for k, v in last.tape.items()}

    def attempt(cand):
        nonlocal best, last
        r = fails(cand)
        if r is not None:
            # keep what was actually consumed
            best = {k: list(v) for k, v in r.tape.items()}
            last = r
            return True
        return False

    # 1. canonical schedule / no faults
    for s in CANON_FIRST:
        for s2 in [k for k in best if k.startswith(s)]:
            if any(best[s2]):
                c = dict(best)
                c[s2] = []
                attempt(c)
    # 2. per-stream span deletion, zeroing, halving
    improved = True
    rounds = 0
    while improved and state['n'] < budget and rounds < 4:
        improved = False
        rounds += 1
        for s in sorted(best, key=lambda k: (k not in CANON_FIRST, k)):
            for span in (16, 8, 4, 2, 1):
                i = 0
                while s in best and i < len(best[s]) and state['n'] < budget:
                    c = dict(best)
                    c[s] = best[s][:i] + best[s][i + span:]
                    if len(c[s]) < len(best[s]) and attempt(c):
                        improved = True
                    else:
                        i += span
            i = 0
            while s in best and i < len(best[s]) and state['n'] < budget:
                v = best[s][i]
                if v:
                    c = dict(best)
                    c[s] = best[s][:i] + [0] + best[s][i + 1:]
                    if attempt(c):
                        improved = True
                    elif v > 1:
                        c = dict(best)
                        c[s] = best[s][:i] + [v // 2] + best[s][i + 1:]
                        if attempt(c):
                            improved = True
                i += 1
    return best, last, state['n']
