"""Tape minimisation: shrink a failing run while the same violation class persists.

Every candidate is executed in a forked child, preceded by the runs that
preceded the failing run in its worker chunk (`prefix`), because process state
(caches, global RNG, allocator history) may be part of what makes it fail.  The
prefix is dropped first if the run fails on its own, else shrunk like a tape."""
import time

from .run import execute_isolated

CANON_FIRST = ('sched', 'mpi', 'gomp', 'pool', 'fault', 'poison')


def minimise(prop_mod, tape, vclass, tier='quick', budget=200, opts=None, prefix=(), deadline=None, seed=None):
    """Returns (tape, prefix, result, executions).  `tape` may come back as {'__seed__': [seed]} when the failure only
    reproduces in the exact process state of the original execution (target drawn from its seed, not replayed from a tape)."""
    state = {'n': 0}
    best = {k: list(v) for k, v in tape.items()}
    prefix = list(prefix)
    by_seed = {'on': False}

    def exhausted():
        return state['n'] >= budget or (deadline is not None and time.time() > deadline and state['n'] >= 3)

    def fails(cand, pre):
        if exhausted():
            return None
        state['n'] += 1
        if by_seed['on']:
            r = execute_isolated(prop_mod, pre, seed, tier, replay=None, wall_limit=60, opts=opts)
        else:
            r = execute_isolated(prop_mod, pre, 0, tier, replay=cand, wall_limit=60, opts=opts)
        if r.status == 'violation' and r.vclass == vclass:
            return r
        return None

    last = None
    if prefix:
        last = fails(best, [])
        if last is not None:
            prefix = []
    if last is None:
        last = fails(best, prefix)
    if last is None and seed is not None and prefix:
        # exactly the original execution: same prefix, target drawn from its seed
        by_seed['on'] = True
        last = fails(None, prefix)
    if last is None:
        return None, prefix, None, state['n']
    # shrink the prefix (delta debugging, coarse to fine)
    span = max(1, len(prefix) // 2)
    while prefix and span >= 1 and not exhausted():
        i = 0
        while i < len(prefix) and not exhausted():
            cand = prefix[:i] + prefix[i + span:]
            r = fails(best, cand)
            if r is not None:
                prefix, last = cand, r
            else:
                i += span
        span //= 2
    if by_seed['on']:
        return {'__seed__': [seed]}, prefix, last, state['n']
    if last.tape:
        best = {k: list(v) for k, v in last.tape.items()}

    def attempt(cand):
        nonlocal best, last
        r = fails(cand, prefix)
        if r is not None:
            best = {k: list(v) for k, v in r.tape.items()}
            last = r
            return True
        return False

    # 1. canonical schedule / no faults
    for s in CANON_FIRST:
        for s2 in [k for k in list(best) if k.startswith(s)]:
            if s2 in best and any(best[s2]):
                c = dict(best)
                c[s2] = []
                attempt(c)
    # 2. per-stream span deletion, zeroing, halving
    improved = True
    rounds = 0
    while improved and not exhausted() and rounds < 4:
        improved = False
        rounds += 1
        for s in sorted(list(best), key=lambda k: (not k.startswith(CANON_FIRST), k)):
            if exhausted():
                break
            for span in (4096, 256, 16, 8, 4, 2, 1):
                if s in best and span > len(best[s]):
                    continue
                i = 0
                while s in best and i < len(best[s]) and not exhausted():
                    c = dict(best)
                    c[s] = best[s][:i] + best[s][i + span:]
                    if len(c[s]) < len(best[s]) and attempt(c):
                        improved = True
                    else:
                        i += span
            i = 0
            while s in best and i < len(best[s]) and not exhausted():
                v = best[s][i]
                if v:
                    c = dict(best)
                    c[s] = best[s][:i] + [0] + best[s][i + 1:]
                    if attempt(c):
                        improved = True
                    elif v > 1:
                        c = dict(best)
                        c[s] = best[s][:i] + [v // 2] + best[s][i + 1:]
                        if attempt(c):
                            improved = True
                i += 1
    return best, prefix, last, state['n']
