"""Run context, outcome classes and the call boundary into enspara."""
import os
import shutil
import signal
import sys
import tempfile
import traceback

from .tape import Tape, Digest
from ..engines.simmpi import SimViolation, WorldAbort


class Skip(Exception):
    """Scenario lies outside the property's quantifier (counted as trivial)."""


class HarnessError(Exception):
    pass


class RunTimeout(BaseException):
    pass


class CpuBudget(BaseException):
    """the run consumed far more CPU time than any terminating run needs"""


class Ctx:
    """Everything one simulated run may use."""

    def __init__(self, prop, seed, tier='quick', replay=None, keep_events=False, opts=None):
        self.prop = prop
        self.seed = seed
        self.tier = tier
        self.tape = Tape(seed, replay)
        self.log = Digest(keep_events)
        self.counters = {}
        self.faults = {}
        self.reach = {}
        self.post = {}          # pure post-conditions evaluated
        self.steps = 0          # logical simulated steps
        self.scenario = {}      # decoded, human-readable description
        self.fingerprint_parts = []
        self.nontrivial = False
        self.known = []         # known findings hit in this run
        self.opts = opts or {}
        self._scratch = None

    # counters -----------------------------------------------------------
    def count(self, key, n=1):
        self.counters[key] = self.counters.get(key, 0) + n

    def fault(self, key, n=1):
        self.faults[key] = self.faults.get(key, 0) + n

    def hit(self, key, n=1):
        self.reach[key] = self.reach.get(key, 0) + n

    def postcond(self, key, n=1):
        self.post[key] = self.post.get(key, 0) + n

    def fp(self, *parts):
        self.fingerprint_parts.append(parts)

    def scratch(self):
        if self._scratch is None:
            base = os.path.join(os.path.dirname(os.path.dirname(os.path.dirname(os.path.abspath(__file__)))),
                                '.build', 'run')
            os.makedirs(base, exist_ok=True)
            self._scratch = tempfile.mkdtemp(prefix='r%d-' % os.getpid(), dir=base)
        return self._scratch

    def cleanup(self):
        if self._scratch is not None:
            shutil.rmtree(self._scratch, ignore_errors=True)
            self._scratch = None

    # the call boundary ---------------------------------------------------
    def sut(self, fn, *a, **kw):
        """Call into enspara.  An exception escaping from a call the model
        considers valid is the violation class `unexpected_exception`."""
        try:
            return fn(*a, **kw)
        except (SimViolation, WorldAbort, RunTimeout, CpuBudget, Skip):
            raise
        except Exception as e:
            from ..engines.simmpi import exc_site
            site = exc_site(e)
            v = SimViolation('unexpected_exception:%s@%s' % (type(e).__name__, site),
                             '%s: %s [at %s] in %s' % (type(e).__name__, str(e)[:300], site,
                                                       getattr(fn, '__name__', str(fn))))
            v.exc_type = type(e).__name__
            v.site = site
            raise v from e

    def expect_raise(self, fn, *a, **kw):
        """Call that must be rejected: returns the exception, or None if the
        call returned (the caller turns that into a violation)."""
        try:
            fn(*a, **kw)
        except (SimViolation, WorldAbort, RunTimeout, CpuBudget):
            raise
        except Exception as e:
            return e
        return None


def require(cond, cls, detail=''):
    if not cond:
        raise SimViolation(cls, detail() if callable(detail) else detail)


class Result:
    """Picklable summary of one run."""
    __slots__ = ('index', 'seed', 'status', 'vclass', 'detail', 'fingerprint', 'nontrivial', 'counters',
                 'faults', 'reach', 'post', 'steps', 'digest', 'scenario', 'tape', 'known', 'ndraws', 'extra')

    def __init__(self, **kw):
        for k in self.__slots__:
            setattr(self, k, kw.get(k))


def _alarm(signum, frame):
    raise RunTimeout()


def _vtalarm(signum, frame):
    raise CpuBudget()


CPU_LIMIT_S = 25.0      # a normal run uses milliseconds; only a run that never terminates gets here


def execute(prop_mod, seed, tier='quick', replay=None, index=None, keep_events=False, wall_limit=120, opts=None):
    """Execute one scenario of a property module; never raises for SUT faults."""
    import hashlib
    ctx = Ctx(prop_mod.ID, seed, tier, replay, keep_events, opts)
    status, vclass, detail = 'ok', None, None
    old = None
    try:
        if wall_limit:
            old = signal.signal(signal.SIGALRM, _alarm)
            signal.alarm(wall_limit)
            signal.signal(signal.SIGVTALRM, _vtalarm)
            signal.setitimer(signal.ITIMER_VIRTUAL, CPU_LIMIT_S)
        try:
            prop_mod.scenario(ctx)
        except Skip as s:
            status, detail = 'skip', str(s)
        except SimViolation as v:
            status, vclass, detail = 'violation', v.cls, v.detail
        except CpuBudget:
            status, vclass, detail = 'violation', 'no_progress', ('the run did not terminate within %.0f s of CPU time '
                                                                  '(normal runs take milliseconds)' % CPU_LIMIT_S)
        except RunTimeout:
            status, vclass, detail = 'harness_error', 'wall_timeout', 'run exceeded %ss wall clock' % wall_limit
        except Exception as e:
            status, vclass, detail = 'harness_error', type(e).__name__, traceback.format_exc()[-3000:]
    finally:
        if wall_limit:
            signal.setitimer(signal.ITIMER_VIRTUAL, 0)
            signal.alarm(0)
            if old is not None:
                signal.signal(signal.SIGALRM, old)
        ctx.cleanup()
    fp = hashlib.blake2b(repr(ctx.fingerprint_parts).encode(), digest_size=10).hexdigest()
    # everything observable about the run goes into the event-log digest: two executions of one tape must agree on it
    ctx.log.ev('final', fp, sorted(ctx.counters.items()), sorted(ctx.faults.items()), sorted(ctx.reach.items()),
               sorted(ctx.post.items()), ctx.steps, status, vclass, detail if status != 'harness_error' else '', ctx.tape.ndraws)
    return Result(index=index, seed=seed, status=status, vclass=vclass, detail=detail, fingerprint=fp,
                  nontrivial=ctx.nontrivial, counters=ctx.counters, faults=ctx.faults, reach=ctx.reach,
                  post=ctx.post, steps=ctx.steps, digest=ctx.log.hexdigest(), scenario=ctx.scenario,
                  tape=ctx.tape.export(), known=ctx.known, ndraws=ctx.tape.ndraws,
                  extra=(ctx.log.events if keep_events else None))


_ISO_PROP = None


def set_iso_prop(prop_mod):
    """the property module the zygote's children execute (set before the zygote is forked)"""
    global _ISO_PROP
    _ISO_PROP = prop_mod
    from . import zygote
    zygote.register('iso', _iso_task)


def run_sequence(prop_mod, items, tier, keep_events=False, wall_limit=120, opts=None):
    """Execute runs one after the other in this process, keeping every Result alive until the end - the one code path
    shared by batch chunks, the minimiser and replay, so that the process state a run sees (heap layout included) is the
    same in all three.  items: list of (seed, replay_tape_or_None, index)."""
    out = []
    for k, (seed, replay, index) in enumerate(items):
        last = k == len(items) - 1
        out.append(execute(prop_mod, seed, tier, replay=replay, index=index, keep_events=keep_events and last,
                           wall_limit=wall_limit, opts=opts))
    return out


def _iso_task(prefix_seeds, seed, tier, replay, keep_events, wall_limit, opts):
    items = [(ps, None, None) for ps in prefix_seeds] + [(seed, replay, None)]
    return run_sequence(_ISO_PROP, items, tier, keep_events, wall_limit, opts)[-1]


def _crash_result(seed, replay, status):
    sig = os.WTERMSIG(status) if (status is not None and os.WIFSIGNALED(status)) else None
    return Result(index=None, seed=seed, status='violation', vclass='interpreter_crash',
                  detail='the interpreter died (signal %s, status %s) while executing the run' % (sig, status), fingerprint='',
                  nontrivial=False, counters={}, faults={}, reach={}, post={}, steps=0, digest='', scenario={}, tape=replay or {},
                  known=[], ndraws=0, extra=None)


def execute_isolated(prop_mod, prefix_seeds, seed, tier='quick', replay=None, keep_events=False, wall_limit=120, opts=None):
    """Execute in a child forked from the zygote: first the scenarios of `prefix_seeds` (the runs that preceded the
    target in its chunk - process state such as caches, the global RNG or recycled addresses may carry over), then the
    target.  Returns the target's Result.  A child that dies is reported as the violation class `interpreter_crash`."""
    from . import zygote
    z = zygote.get()
    if z is not None and _ISO_PROP is prop_mod:
        status, res = z.call('iso', (list(prefix_seeds), seed, tier, replay, keep_events, wall_limit, opts),
                             timeout=wall_limit * (len(prefix_seeds) + 2) + 60 if wall_limit else None)
        if res is None or status != 0:
            return _crash_result(seed, replay, status)
        return res
    return _execute_forked(prop_mod, prefix_seeds, seed, tier, replay, keep_events, wall_limit, opts)


def _execute_forked(prop_mod, prefix_seeds, seed, tier='quick', replay=None, keep_events=False, wall_limit=120, opts=None):
    """Execute in a forked child: first the scenarios of `prefix_seeds` (the runs
    that preceded the target in its worker chunk - process state such as caches or
    the global RNG may carry over), then the target.  Returns the target's Result.
    A child that dies is reported as the violation class `interpreter_crash`."""
    import pickle
    r, w = os.pipe()
    pid = os.fork()
    if pid == 0:
        code = 0
        try:
            os.close(r)
            for ps in prefix_seeds:
                execute(prop_mod, ps, tier, wall_limit=wall_limit, opts=opts)
            res = execute(prop_mod, seed, tier, replay=replay, keep_events=keep_events, wall_limit=wall_limit, opts=opts)
            data = pickle.dumps(res)
            off = 0
            while off < len(data):
                off += os.write(w, data[off:off + 65536])
        except BaseException:       # noqa
            code = 3
        finally:
            os._exit(code)
    os.close(w)
    chunks = []
    while True:
        b = os.read(r, 1 << 20)
        if not b:
            break
        chunks.append(b)
    os.close(r)
    _, status = os.waitpid(pid, 0)
    if os.WIFSIGNALED(status) or not chunks:
        sig = os.WTERMSIG(status) if os.WIFSIGNALED(status) else None
        return Result(index=None, seed=seed, status='violation', vclass='interpreter_crash',
                      detail='the interpreter died (signal %s) while executing the run' % sig, fingerprint='', nontrivial=False,
                      counters={}, faults={}, reach={}, post={}, steps=0, digest='', scenario={}, tape=replay or {}, known=[],
                      ndraws=0, extra=None)
    return pickle.loads(b''.join(chunks))
