"""The choice tape: the only source of choice in a simulated run.

A tape is a set of named streams of non-negative integers.  In search mode
each stream is backed by its own PRNG derived from (seed, stream name) and
every draw is recorded; in replay mode the recorded lists are read back
(exhausted streams read as 0, out-of-range entries are reduced modulo n), so a
shortened or edited tape is still a valid run.  Keeping schedule, fault and
data choices on separate streams lets the minimiser simplify one without
shifting the meaning of the others.
"""
import hashlib
import random


def derive_seed(*parts):
    h = hashlib.blake2b(digest_size=8)
    for p in parts:
        h.update(str(p).encode())
        h.update(b'\0')
    return int.from_bytes(h.digest(), 'big')


class Tape:
    __slots__ = ('seed', 'streams', 'pos', 'rng', 'replay', 'ndraws', 'log')

    def __init__(self, seed=0, replay=None):
        self.seed = seed
        self.replay = replay is not None
        self.streams = {k: list(v) for k, v in replay.items()} if replay is not None else {}
        self.pos = {}
        self.rng = {}
        self.ndraws = 0
        self.log = None          # optional event log (Digest) to record decisions into

    def draw(self, n, stream='data'):
        """Integer in [0, n)."""
        if n <= 1:
            return 0
        self.ndraws += 1
        if self.replay:
            s = self.streams.get(stream)
            i = self.pos.get(stream, 0)
            self.pos[stream] = i + 1
            if s is None or i >= len(s):
                return 0
            v = s[i]
            return v % n if v >= n else v
        r = self.rng.get(stream)
        if r is None:
            r = self.rng[stream] = random.Random(derive_seed(self.seed, stream))
            self.streams[stream] = []
        v = r.randrange(n)
        self.streams[stream].append(v)
        return v

    # conveniences -----------------------------------------------------
    def choice(self, seq, stream='data'):
        return seq[self.draw(len(seq), stream)]

    def flag(self, num=1, den=2, stream='data'):
        """True with probability num/den."""
        return self.draw(den, stream) < num

    def irange(self, lo, hi, stream='data'):
        """Integer in [lo, hi] inclusive."""
        return lo + self.draw(hi - lo + 1, stream)

    def perm(self, n, stream='data'):
        out = list(range(n))
        for k in range(n - 1, 0, -1):
            j = self.draw(k + 1, stream)
            out[k], out[j] = out[j], out[k]
        return out

    def block(self, k, n, stream='data'):
        return [self.draw(n, stream) for _ in range(k)]

    def export(self):
        """The recorded tape, only the consumed prefix of each stream."""
        if self.replay:
            return {k: v[:self.pos.get(k, 0)] for k, v in self.streams.items() if self.pos.get(k, 0)}
        return {k: list(v) for k, v in self.streams.items()}


class Digest:
    """Event log digest: every simulated event is fed here; two executions of
    one tape must produce the same digest."""
    __slots__ = ('h', 'n', 'keep', 'events')

    def __init__(self, keep=False):
        self.h = hashlib.blake2b(digest_size=12)
        self.n = 0
        self.keep = keep
        self.events = [] if keep else None

    def ev(self, *parts):
        self.n += 1
        s = '|'.join(_fmt(p) for p in parts)
        self.h.update(s.encode())
        self.h.update(b'\n')
        if self.keep:
            self.events.append(s)

    def hexdigest(self):
        return self.h.hexdigest()


def _fmt(p):
    try:
        import numpy as np
        if isinstance(p, np.ndarray):
            return 'nd:%s:%s:%s' % (p.dtype.str, p.shape,
                                    hashlib.blake2b(np.ascontiguousarray(p).tobytes(), digest_size=8).hexdigest())
    except Exception:
        pass
    if isinstance(p, float):
        return repr(p)
    if isinstance(p, (list, tuple)):
        return '[' + ','.join(_fmt(x) for x in p) + ']'
    if isinstance(p, dict):
        return '{' + ','.join('%s:%s' % (_fmt(k), _fmt(p[k])) for k in sorted(p, key=str)) + '}'
    return str(p)
