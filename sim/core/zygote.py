"""A pristine process that forks one child per request.

Every simulated run (or chunk of runs) executes in a child forked from the
*same* process image: the zygote, which is created right after start-up (staged
enspara imported, property module set up) and afterwards does nothing but fork
on request.  So the process state a run starts from - heap layout and free
lists included - is the same in the batch, in the minimiser and in `vcheck
replay`, whichever worker slot or moment the run happens to get.  That is what
lets a failure that depends on what earlier runs of its chunk left behind in
the process (caches, global RNG, recycled object addresses) replay exactly.
"""
import os
import pickle
import select
import shutil
import signal
import struct
import tempfile

_TASKS = {}


def register(kind, fn):
    _TASKS[kind] = fn


class Zygote:
    def __init__(self, scratch_root):
        os.makedirs(scratch_root, exist_ok=True)
        self.dir = tempfile.mkdtemp(prefix='zyg-', dir=scratch_root)
        req_r, req_w = os.pipe()
        done_r, done_w = os.pipe()
        self.pid = os.fork()
        if self.pid == 0:
            try:
                os.close(req_w)
                os.close(done_r)
                self._serve(req_r, done_w)
            finally:
                os._exit(0)
        os.close(req_r)
        os.close(done_w)
        self.req_w = req_w
        self.done_r = done_r
        self.next_id = 0
        self.outstanding = {}

    # ---- zygote side ------------------------------------------------------
    def _serve(self, req_r, done_w):
        signal.signal(signal.SIGINT, signal.SIG_IGN)
        children = {}
        buf = b''
        open_ = True
        while open_ or children:
            if open_:
                r, _, _ = select.select([req_r], [], [], 0.02 if children else 1.0)
                if r:
                    chunk = os.read(req_r, 1 << 16)
                    if not chunk:
                        open_ = False
                    buf += chunk
                while len(buf) >= 8:
                    (n,) = struct.unpack('<Q', buf[:8])
                    if len(buf) < 8 + n:
                        break
                    payload, buf = buf[8:8 + n], buf[8 + n:]
                    req_id, kind, args, outpath = pickle.loads(payload)
                    pid = os.fork()
                    if pid == 0:
                        code = 0
                        try:
                            os.close(req_r)
                            os.close(done_w)
                            signal.signal(signal.SIGINT, signal.SIG_DFL)
                            res = _TASKS[kind](*args)
                            with open(outpath + '.tmp', 'wb') as f:
                                pickle.dump(res, f)
                            os.replace(outpath + '.tmp', outpath)
                        except BaseException:      # noqa
                            import traceback
                            traceback.print_exc()
                            code = 3
                        finally:
                            os._exit(code)
                    children[pid] = req_id
            else:
                select.select([], [], [], 0.02)
            # reap
            while children:
                try:
                    pid, status = os.waitpid(-1, os.WNOHANG)
                except ChildProcessError:
                    children.clear()
                    break
                if pid == 0:
                    break
                req_id = children.pop(pid, None)
                if req_id is not None:
                    os.write(done_w, struct.pack('<Qi', req_id, status))

    # ---- driver side ------------------------------------------------------------
    def submit(self, kind, args):
        req_id = self.next_id
        self.next_id += 1
        outpath = os.path.join(self.dir, 'r%d.pkl' % req_id)
        payload = pickle.dumps((req_id, kind, args, outpath))
        data = struct.pack('<Q', len(payload)) + payload
        off = 0
        while off < len(data):
            off += os.write(self.req_w, data[off:])
        self.outstanding[req_id] = outpath
        return req_id

    def wait_any(self, timeout=None):
        """-> (req_id, status, result or None); None on timeout"""
        r, _, _ = select.select([self.done_r], [], [], timeout)
        if not r:
            return None
        tok = b''
        while len(tok) < 12:
            b = os.read(self.done_r, 12 - len(tok))
            if not b:
                raise RuntimeError('zygote died')
            tok += b
        req_id, status = struct.unpack('<Qi', tok)
        outpath = self.outstanding.pop(req_id)
        res = None
        if os.path.exists(outpath):
            with open(outpath, 'rb') as f:
                res = pickle.load(f)
            os.unlink(outpath)
        return req_id, status, res

    def call(self, kind, args, timeout=600):
        rid = self.submit(kind, args)
        stash = []
        try:
            while True:
                got = self.wait_any(timeout)
                if got is None:
                    return None, None
                if got[0] == rid:
                    return got[1], got[2]
                stash.append(got)
        finally:
            self._stash = getattr(self, '_stash', []) + stash

    def close(self):
        try:
            os.close(self.req_w)
        except OSError:
            pass
        try:
            os.waitpid(self.pid, 0)
        except ChildProcessError:
            pass
        try:
            os.close(self.done_r)
        except OSError:
            pass
        shutil.rmtree(self.dir, ignore_errors=True)


ZYGOTE = None


def get():
    return ZYGOTE


def start(scratch_root):
    global ZYGOTE
    if ZYGOTE is None:
        ZYGOTE = Zygote(scratch_root)
    return ZYGOTE


def stop():
    global ZYGOTE
    if ZYGOTE is not None:
        ZYGOTE.close()
        ZYGOTE = None
