"""ctypes face of libsimrt (allocator + OpenMP runtime) and the NumPy handler."""
import ctypes
import importlib.util
import os

import numpy as np

from ..core import build

POISON_MODES = {0: 'zeros', 1: 'qnan', 2: 'ones', 3: 'random', 4: 'small_ints', 5: 'plausible_floats', 6: 'huge'}

_lib = None
_ext = None


def lib():
    global _lib, _ext
    if _lib is None:
        nat = build.build_native()
        _lib = ctypes.CDLL(os.path.join(nat, 'libsimrt.so'), mode=ctypes.RTLD_GLOBAL)
        _lib.sim_alloc_config.argtypes = [ctypes.c_int, ctypes.c_ulonglong]
        _lib.sim_check_all.restype = ctypes.c_long
        _lib.sim_alloc_stats.argtypes = [ctypes.POINTER(ctypes.c_long)]
        _lib.sim_alloc_owns.argtypes = [ctypes.c_void_p]
        _lib.sim_alloc_owns.restype = ctypes.c_long
        _lib.sim_gomp_config.argtypes = [ctypes.c_int, ctypes.c_int]
        _lib.sim_gomp_decisions.argtypes = [ctypes.c_void_p, ctypes.c_long]
        _lib.sim_gomp_decisions_used.restype = ctypes.c_long
        _lib.sim_gomp_stats.argtypes = [ctypes.POINTER(ctypes.c_long)]
        _lib.sim_gomp_watch.argtypes = [ctypes.c_void_p, ctypes.c_size_t]
        spec = importlib.util.spec_from_file_location('_simnative', os.path.join(nat, '_simnative.so'))
        _ext = importlib.util.module_from_spec(spec)
        spec.loader.exec_module(_ext)
    return _lib


def install_allocator():
    lib()
    _ext.install()


def uninstall_allocator():
    if _ext is not None:
        _ext.uninstall()


def handler_name():
    lib()
    return _ext.handler_name()


def poison(mode, seed=1):
    lib().sim_alloc_config(int(mode), int(seed) & 0xFFFFFFFFFFFFFFFF)


def redzone_bad():
    return int(lib().sim_check_all())


def reset_redzone():
    lib().sim_alloc_reset_bad()


def alloc_stats():
    a = (ctypes.c_long * 8)()
    lib().sim_alloc_stats(a)
    k = ('malloc', 'calloc', 'realloc', 'free', 'redzone_bad', 'live', 'live_bytes', 'poisoned_bytes')
    return dict(zip(k, a))


def owns(arr):
    """size of the tracked buffer containing arr's data pointer, or -1"""
    return int(lib().sim_alloc_owns(arr.ctypes.data))


_dec_keep = None


def gomp(T=1, iso=False, decisions=None):
    """Configure the next parallel regions: team size, snapshot isolation, and
    the block of scheduling decisions (list of ints) the runtime consumes."""
    global _dec_keep
    L = lib()
    L.sim_gomp_config(int(T), 1 if iso else 0)
    if decisions:
        _dec_keep = np.asarray(decisions, dtype=np.uint32)
        L.sim_gomp_decisions(_dec_keep.ctypes.data, len(_dec_keep))
    else:
        _dec_keep = None
        L.sim_gomp_decisions(None, 0)


def gomp_watch(arr):
    lib().sim_gomp_watch(arr.ctypes.data, arr.nbytes)


def gomp_unwatch_all():
    lib().sim_gomp_unwatch_all()


def gomp_stats(reset=False):
    a = (ctypes.c_long * 14)()
    lib().sim_gomp_stats(a)
    k = ('regions', 'switches', 'barriers', 'conflict_bytes', 'diff_bytes', 'sync_seen', 'iso_regions',
         'watched_bytes', 'decisions_used', 'max_team', 'dyn_chunks', 'budget_hit', 'overlap_bytes', 'critical_sections')
    d = dict(zip(k, a))
    if reset:
        lib().sim_gomp_reset_stats()
    return d
