"""simmpi — N MPI ranks inside one process, under a seeded scheduler.

A fake ``mpi4py`` package is placed in ``sys.modules`` before enspara is
imported; ``enspara.mpi`` then binds ``comm``, ``rank`` and ``size`` to it just
as it would bind the real library.  Each rank is a real thread that runs the
real enspara code; exactly one thread holds the baton at any time and gives it
up only inside a simulated collective, so which rank runs next is always a
decision taken from the choice tape.

Semantics modelled on mpi4py:
  bcast/allgather/allreduce move pickled copies (root keeps its own object);
  Bcast copies raw bytes and requires equal byte counts;
  bcast/Bcast do not synchronise: a receiver may leave as soon as the root has
  deposited, and the root either runs ahead at once ("eager") or waits until
  everybody has arrived ("rendezvous") — chosen per collective from the tape;
  allgather/allreduce/Barrier synchronise everyone;
  allreduce folds in a tape-chosen association order.
With no world active the module is a world of size one (rank 0).
"""
import pickle
import sys
import threading
import types

import numpy as np


class SimViolation(Exception):
    """Raised by engines/monitors: the system under test broke an invariant."""

    def __init__(self, cls, detail='', event_index=None):
        Exception.__init__(self, '%s: %s' % (cls, detail))
        self.cls = cls
        self.detail = detail
        self.event_index = event_index


def exc_site(e):
    """deepest frame of the traceback that lies in the staged enspara: 'pkg/file.py:function'"""
    import traceback
    site = '?'
    for fr in traceback.extract_tb(e.__traceback__):
        if '/enspara/' in fr.filename:
            site = '%s:%s' % (fr.filename.split('/enspara/', 1)[1], fr.name)
    return site


class WorldAbort(BaseException):
    """Unwinds a parked rank thread when the world is torn down."""


class Op:
    def __init__(self, name, f):
        self.name = name
        self.f = f

    def __call__(self, a, b):
        return self.f(a, b)

    def __repr__(self):
        return 'MPI.' + self.name


def _max(a, b):
    return np.maximum(a, b) if isinstance(a, np.ndarray) or isinstance(b, np.ndarray) else max(a, b)


def _min(a, b):
    return np.minimum(a, b) if isinstance(a, np.ndarray) or isinstance(b, np.ndarray) else min(a, b)


SUM = Op('SUM', lambda a, b: a + b)
MAX = Op('MAX', _max)
MIN = Op('MIN', _min)
PROD = Op('PROD', lambda a, b: a * b)

_WORLD = None           # the active World, or None (size-one behaviour)
MAX_COLLECTIVES = 20000


def _cp(o):
    return pickle.loads(pickle.dumps(o, protocol=pickle.HIGHEST_PROTOCOL))


class _Inst:
    __slots__ = ('k', 'kind', 'meta', 'contrib', 'result', 'passed', 'sync_root')

    def __init__(self, k, kind, meta):
        self.k = k
        self.kind = kind
        self.meta = meta
        self.contrib = {}
        self.result = None
        self.passed = 0
        self.sync_root = False


class World:
    """One simulated MPI job."""

    def __init__(self, n, tape, digest=None, eager=True, thread_init=None, reassoc=True, suffix='', assoc=None):
        self.n = n
        self.tape = tape
        self.digest = digest
        self.eager = eager
        self.reassoc = reassoc
        self.assoc = assoc      # fixed association order of this 'MPI implementation' (list of ranks) or None
        self.thread_init = thread_init
        self.s_sched = 'sched' + suffix
        self.s_mpi = 'mpi' + suffix
        self.cur = None
        self.ev = [threading.Event() for _ in range(n)]
        self.sched_ev = threading.Event()
        self.seq = [0] * n            # number of collectives entered per rank
        self.inst = {}                # k -> _Inst
        self.blocked = {}             # rank -> _Inst it waits on
        self.done = set()
        self.err = {}
        self.abort = False
        self.n_decisions = 0
        self.n_collectives = 0
        self.n_eager = 0
        self.n_reassoc = 0
        self.kinds = {}
        self.sched_trace = []
        self.max_skew = 0
        self.mail = {}
        self.blocked_p2p = {}
        self.n_p2p = 0

    # ---- rank-thread side -------------------------------------------
    def _park(self):
        r = self.cur
        self.sched_ev.set()
        self.ev[r].wait()
        self.ev[r].clear()
        if self.abort:
            raise WorldAbort()

    def _ready(self, inst, r):
        if inst.kind in ('bcast', 'Bcast'):
            root = inst.meta
            if r == root:
                return (not inst.sync_root) or len(inst.contrib) == self.n
            return root in inst.contrib
        return len(inst.contrib) == self.n

    def coll(self, kind, meta, payload):
        r = self.cur
        k = self.seq[r]
        self.seq[r] += 1
        if self.seq[r] > MAX_COLLECTIVES:
            self._fail(SimViolation('no_progress', 'rank %d entered more than %d collectives' % (r, MAX_COLLECTIVES)))
        inst = self.inst.get(k)
        if inst is None:
            inst = self.inst[k] = _Inst(k, kind, meta)
            self.n_collectives += 1
            self.kinds[kind] = self.kinds.get(kind, 0) + 1
            if kind in ('bcast', 'Bcast'):
                inst.sync_root = not (self.eager and self.tape.draw(2, self.s_mpi) == 0)
                if not inst.sync_root:
                    self.n_eager += 1
        else:
            mk = meta.name if isinstance(meta, Op) else meta
            ik = inst.meta.name if isinstance(inst.meta, Op) else inst.meta
            if inst.kind != kind or ik != mk:
                self._fail(SimViolation(
                    'collective_mismatch',
                    'collective #%d: rank %d calls %s(%s) but rank(s) %s called %s(%s)' %
                    (k, r, kind, mk, sorted(inst.contrib), inst.kind, ik)))
        # deposit
        if kind == 'Bcast':
            if r == meta:
                if not isinstance(payload, np.ndarray):
                    self._fail(SimViolation('bad_buffer', 'Bcast root buffer is %r' % type(payload)))
                inst.contrib[r] = (np.ascontiguousarray(payload).tobytes(), payload.dtype.str, payload.shape)
            else:
                inst.contrib[r] = payload
        elif kind == 'bcast':
            inst.contrib[r] = pickle.dumps(payload, protocol=pickle.HIGHEST_PROTOCOL) if r == meta else None
        elif kind == 'barrier':
            inst.contrib[r] = None
        else:
            inst.contrib[r] = pickle.dumps(payload, protocol=pickle.HIGHEST_PROTOCOL)
        skew = max(self.seq) - min(self.seq)
        if skew > self.max_skew:
            self.max_skew = skew
        while not self._ready(inst, r):
            self.blocked[r] = inst
            self._park()
        self.blocked.pop(r, None)
        out = self._deliver(inst, r, payload)
        inst.passed += 1
        if inst.passed == self.n:
            del self.inst[k]
        return out

    def _deliver(self, inst, r, payload):
        kind = inst.kind
        if kind == 'barrier':
            return None
        if kind == 'bcast':
            root = inst.meta
            if r == root:
                if self.digest is not None:
                    self.digest.ev('bcast', inst.k, root, len(inst.contrib[root]))
                return payload
            return pickle.loads(inst.contrib[root])
        if kind == 'Bcast':
            root = inst.meta
            raw, dt, shp = inst.contrib[root]
            if r == root:
                if self.digest is not None:
                    self.digest.ev('Bcast', inst.k, root, dt, shp, raw)
                return None
            buf = payload
            if not isinstance(buf, np.ndarray):
                self._fail(SimViolation('bad_buffer', 'Bcast receive buffer on rank %d is %r' % (r, type(buf))))
            if buf.nbytes != len(raw):
                self._fail(SimViolation(
                    'bcast_size_mismatch',
                    'Bcast #%d root %d sends %d bytes (%s %s), rank %d receives into %d bytes (%s %s)' %
                    (inst.k, root, len(raw), dt, shp, r, buf.nbytes, buf.dtype.str, buf.shape)))
            if not buf.flags.c_contiguous or not buf.flags.writeable:
                self._fail(SimViolation('bad_buffer', 'Bcast receive buffer on rank %d not contiguous/writeable' % r))
            buf.reshape(-1).view(np.uint8)[:] = np.frombuffer(raw, dtype=np.uint8)
            return None
        if kind == 'allgather':
            if self.digest is not None and inst.passed == 0:
                self.digest.ev('allgather', inst.k, [len(inst.contrib[q]) for q in range(self.n)])
            return [pickle.loads(inst.contrib[q]) for q in range(self.n)]
        if kind == 'allreduce':
            if inst.result is None:
                order = list(range(self.n))
                if self.assoc is not None:
                    order = list(self.assoc)
                elif self.reassoc and self.n > 2:
                    order = self.tape.perm(self.n, self.s_mpi)
                if order != list(range(self.n)):
                    self.n_reassoc += 1
                acc = pickle.loads(inst.contrib[order[0]])
                for q in order[1:]:
                    acc = inst.meta(acc, pickle.loads(inst.contrib[q]))
                inst.result = pickle.dumps(acc, protocol=pickle.HIGHEST_PROTOCOL)
                if self.digest is not None:
                    self.digest.ev('allreduce', inst.k, inst.meta.name, inst.result)
            return pickle.loads(inst.result)
        raise RuntimeError('unknown collective ' + kind)

    def p2p_send(self, dest, tag, data):
        r = self.cur
        if not (0 <= dest < self.n):
            self._fail(SimViolation('bad_destination', 'rank %d sends to rank %d in a world of %d' % (r, dest, self.n)))
        self.mail.setdefault((r, dest, tag), []).append(data)
        self.n_p2p += 1
        if self.digest is not None:
            self.digest.ev('send', r, dest, tag, len(data))
        # a send is also a point where another rank may run
        self.p2p_wait = None
        self.blocked_p2p.pop(r, None)

    def p2p_recv(self, source, tag):
        r = self.cur
        key = (source, r, tag)
        while not self.mail.get(key):
            self.blocked_p2p[r] = key
            self._park()
        self.blocked_p2p.pop(r, None)
        return self.mail[key].pop(0)

    def _fail(self, exc):
        # called on a rank thread: record and unwind this rank
        self.err.setdefault('world', exc)
        raise WorldAbort()

    # ---- scheduler side ---------------------------------------------
    def run(self, fn):
        """Run fn(rank) on every rank; returns the list of return values.
        Raises SimViolation for deadlock / mismatch / rank exceptions."""
        global _WORLD
        n = self.n
        outs = [None] * n

        def body(r):
            self.ev[r].wait()
            self.ev[r].clear()
            try:
                if self.abort:
                    raise WorldAbort()
                if self.thread_init is not None:
                    self.thread_init(r)
                outs[r] = fn(r)
            except WorldAbort:
                pass
            except BaseException as e:     # noqa — a rank died: record it, with traceback text
                import traceback
                self.err[r] = (e, traceback.format_exc())
            self.done.add(r)
            self.sched_ev.set()

        threads = [threading.Thread(target=body, args=(r,), daemon=True) for r in range(n)]
        prev = _WORLD
        _WORLD = self
        try:
            for t in threads:
                t.start()
            started = set()
            while True:
                if self.err:
                    break
                runnable = [r for r in range(n) if r not in self.done and
                            (r not in started or (r in self.blocked and self._ready(self.blocked[r], r)) or
                             (r in self.blocked_p2p and self.mail.get(self.blocked_p2p[r])))]
                if not runnable:
                    if len(self.done) == n:
                        break
                    waiting = {r: (self.blocked[r].kind, self.blocked[r].k) for r in self.blocked}
                    waiting.update({r: ('recv', k_) for r, k_ in self.blocked_p2p.items()})
                    self.err['world'] = SimViolation(
                        'deadlock', 'finished ranks %s; blocked ranks %s' % (sorted(self.done), waiting))
                    break
                r = runnable[self.tape.draw(len(runnable), self.s_sched)] if len(runnable) > 1 else runnable[0]
                if len(runnable) > 1:
                    self.n_decisions += 1
                self.sched_trace.append(r)
                started.add(r)
                self.cur = r
                self.sched_ev.clear()
                self.ev[r].set()
                self.sched_ev.wait()
        finally:
            # tear down: release every parked thread, one at a time
            self.abort = True
            for r in range(n):
                if r not in self.done:
                    self.cur = r
                    self.sched_ev.clear()
                    self.ev[r].set()
                    self.sched_ev.wait(5)
            for t in threads:
                t.join(5)
            self.cur = None
            _WORLD = prev
        if self.err:
            if 'world' in self.err:
                raise self.err['world']
            r = sorted(k for k in self.err if k != 'world')[0]
            e, tb = self.err[r]
            if isinstance(e, SimViolation):
                raise e
            site = exc_site(e)
            v = SimViolation('rank_exception:%s@%s' % (type(e).__name__, site),
                             'rank %d of %d raised %s: %s [at %s]' % (r, n, type(e).__name__, str(e)[:300], site))
            v.traceback = tb
            v.exc_type = type(e).__name__
            v.exc = e
            raise v
        return outs

    def stats(self):
        return dict(collectives=self.n_collectives, decisions=self.n_decisions, eager=self.n_eager,
                    reassoc=self.n_reassoc, kinds=dict(self.kinds), max_skew=self.max_skew)


class Comm:
    """COMM_WORLD."""

    def Get_rank(self):
        w = _WORLD
        return 0 if w is None or w.cur is None else w.cur

    def Get_size(self):
        w = _WORLD
        return 1 if w is None else w.n

    rank = property(lambda self: self.Get_rank())
    size = property(lambda self: self.Get_size())

    def bcast(self, obj=None, root=0):
        w = _WORLD
        if w is None:
            _check_root(root, 1)
            return obj
        _check_root(root, w.n)
        return w.coll('bcast', int(root), obj)

    def Bcast(self, buf, root=0):
        w = _WORLD
        if w is None:
            _check_root(root, 1)
            return None
        _check_root(root, w.n)
        return w.coll('Bcast', int(root), buf)

    def allgather(self, obj):
        w = _WORLD
        if w is None:
            return [obj]
        return w.coll('allgather', None, obj)

    def allreduce(self, obj, op=SUM):
        w = _WORLD
        if w is None:
            return obj
        return w.coll('allreduce', op, obj)

    def Barrier(self):
        w = _WORLD
        if w is None:
            return None
        return w.coll('barrier', None, None)

    barrier = Barrier

    # ---- buffer-based variants (numpy arrays, optionally as [buf, datatype] specs) -------------------
    @staticmethod
    def _buf(spec):
        if isinstance(spec, (list, tuple)) and spec and isinstance(spec[0], np.ndarray):
            return spec[0]
        return spec

    def Allreduce(self, sendbuf, recvbuf, op=SUM):
        send, recv = self._buf(sendbuf), self._buf(recvbuf)
        if send is IN_PLACE:
            send = recv
        out = self.allreduce(np.array(send, copy=True), op)
        np.copyto(recv, np.asarray(out).reshape(recv.shape))

    def Allgather(self, sendbuf, recvbuf):
        send, recv = self._buf(sendbuf), self._buf(recvbuf)
        parts = self.allgather(np.array(send, copy=True))
        flat = np.concatenate([np.asarray(p).reshape(-1) for p in parts])
        if flat.nbytes != recv.nbytes:
            raise ValueError('Allgather: receive buffer has %d bytes, %d gathered' % (recv.nbytes, flat.nbytes))
        np.copyto(recv.reshape(-1), flat.astype(recv.dtype, copy=False))

    def Gather(self, sendbuf, recvbuf, root=0):
        send = self._buf(sendbuf)
        parts = self.allgather(np.array(send, copy=True))
        if self.Get_rank() == root:
            recv = self._buf(recvbuf)
            np.copyto(recv.reshape(-1), np.concatenate([np.asarray(p).reshape(-1) for p in parts]))

    def Reduce(self, sendbuf, recvbuf, op=SUM, root=0):
        send = self._buf(sendbuf)
        out = self.allreduce(np.array(send, copy=True), op)
        if self.Get_rank() == root:
            recv = self._buf(recvbuf)
            np.copyto(recv, np.asarray(out).reshape(recv.shape))

    def scatter(self, sendobj=None, root=0):
        items = self.bcast(sendobj if self.Get_rank() == root else None, root=root)
        return items[self.Get_rank()]

    def Scatter(self, sendbuf, recvbuf, root=0):
        send = self._buf(sendbuf) if self.Get_rank() == root else None
        full = self.bcast(None if send is None else np.array(send, copy=True), root=root)
        recv = self._buf(recvbuf)
        n = self.Get_size()
        np.copyto(recv.reshape(-1), np.asarray(full).reshape(n, -1)[self.Get_rank()])

    def alltoall(self, sendobj):
        rows = self.allgather(list(sendobj))
        return [rows[q][self.Get_rank()] for q in range(self.Get_size())]

    # ---- point to point (buffered sends; a receive blocks until a matching message exists) ------------
    def send(self, obj, dest, tag=0):
        w = _WORLD
        if w is None:
            raise ValueError('send in a world of size one')
        w.p2p_send(int(dest), int(tag), pickle.dumps(obj, protocol=pickle.HIGHEST_PROTOCOL))

    def recv(self, buf=None, source=0, tag=0, status=None):
        w = _WORLD
        if w is None:
            raise ValueError('recv in a world of size one')
        return pickle.loads(w.p2p_recv(int(source), int(tag)))

    def Send(self, buf, dest, tag=0):
        b = self._buf(buf)
        self.send((np.ascontiguousarray(b).tobytes(), b.dtype.str, b.shape), dest, tag)

    def Recv(self, buf, source=0, tag=0, status=None):
        b = self._buf(buf)
        raw, dt, shp = self.recv(source=source, tag=tag)
        if len(raw) != b.nbytes:
            w = _WORLD
            w._fail(SimViolation('recv_size_mismatch', 'Recv of %d bytes into a buffer of %d bytes' % (len(raw), b.nbytes)))
        b.reshape(-1).view(np.uint8)[:] = np.frombuffer(raw, dtype=np.uint8)

    def sendrecv(self, sendobj, dest, sendtag=0, recvbuf=None, source=0, recvtag=0, status=None):
        self.send(sendobj, dest, sendtag)
        return self.recv(source=source, tag=recvtag)

    def gather(self, obj, root=0):
        allv = self.allgather(obj)
        return allv if self.Get_rank() == root else None

    def reduce(self, obj, op=SUM, root=0):
        v = self.allreduce(obj, op)
        return v if self.Get_rank() == root else None

    def Abort(self, errorcode=0):
        w = _WORLD
        if w is not None:
            w._fail(SimViolation('mpi_abort', 'rank %d called Abort(%s)' % (w.cur, errorcode)))
        raise SystemExit(errorcode)


def _check_root(root, n):
    if not (0 <= int(root) < n):
        raise ValueError('invalid root %r in world of size %d' % (root, n))


class _InPlace:
    def __repr__(self):
        return 'MPI.IN_PLACE'


IN_PLACE = _InPlace()
COMM_WORLD = Comm()
_WTIME = [0.0]


def Wtime():
    """simulated wall clock: advances by a fixed tick per call, never reads a real clock"""
    _WTIME[0] += 1e-3
    return _WTIME[0]


def install():
    """Put the fake mpi4py into sys.modules (idempotent)."""
    if 'mpi4py' in sys.modules and getattr(sys.modules['mpi4py'], '__simmpi__', False):
        return sys.modules['mpi4py.MPI']
    m = types.ModuleType('mpi4py')
    M = types.ModuleType('mpi4py.MPI')
    M.COMM_WORLD = COMM_WORLD
    M.SUM, M.MAX, M.MIN, M.PROD = SUM, MAX, MIN, PROD
    M.Get_processor_name = lambda: 'simnode'
    M.IN_PLACE = IN_PLACE
    M.Wtime = Wtime
    M.ANY_SOURCE, M.ANY_TAG = -1, -1
    for _n in ('DOUBLE', 'FLOAT', 'INT', 'LONG', 'INT64_T', 'INT32_T', 'BOOL', 'BYTE', 'CHAR', 'UNSIGNED', 'UNSIGNED_LONG'):
        setattr(M, _n, _n)
    M.Comm = Comm
    M.Intracomm = Comm
    M.__simmpi__ = True
    m.MPI = M
    m.__simmpi__ = True
    m.__path__ = []
    sys.modules['mpi4py'] = m
    sys.modules['mpi4py.MPI'] = M
    return M


def active():
    return _WORLD
