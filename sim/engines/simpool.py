"""simpool — worker processes without processes.

`enspara.util.load.mp` (and friends) are replaced by an object with the
multiprocessing surface the library uses.  Tasks run inside the calling
thread, one chunk at a time; *which* chunk runs next, *when* (at which pool API
call background progress is made) and on *which* virtual worker are tape
decisions.  Each virtual worker sees the parent's module globals as they were
at fork time plus its own modifications (process isolation); arguments and
results cross by pickle; `Array(lock=False)` is genuinely shared.
"""
import contextlib
import copy
import ctypes
import math
import pickle

from .simmpi import SimViolation

MAX_DISPATCH = 5000


class _Chunk:
    __slots__ = ('res', 'idxs', 'func', 'items', 'star')

    def __init__(self, res, idxs, func, items, star):
        self.res, self.idxs, self.func, self.items, self.star = res, idxs, func, items, star


class AsyncResult:
    def __init__(self, pool, n, single=False):
        self.pool = pool
        self.values = [None] * n
        self.left = n
        self.exc = None
        self.single = single
        self.dropped = False

    def ready(self):
        return self.left == 0

    def successful(self):
        if not self.ready():
            raise ValueError('%r not ready' % self)
        return self.exc is None

    def wait(self, timeout=None):
        self.pool._progress('wait')
        self.pool._drain(self)

    def get(self, timeout=None):
        self.pool._progress('get')
        self.pool._drain(self)
        if self.exc is not None:
            raise self.exc
        return self.values[0] if self.single else self.values


class SimPool:
    def __init__(self, sim, processes=None, initializer=None, initargs=(), maxtasksperchild=None, context=None):
        self.sim = sim
        t = sim.tape
        if processes is None:
            processes = 1 + t.draw(16, 'pool')       # os.cpu_count() of the simulated machine
        if processes < 1:
            raise ValueError('Number of processes must be at least 1')
        self.n = int(processes)
        self.state = 'RUN'
        self.queue = []
        self.fork_globals = {m: dict(m.__dict__) for m in sim.modules}
        self.overlay = [{m: {} for m in sim.modules} for _ in range(self.n)]
        # a forked worker owns a *copy* of every mutable module-level container: in-place updates of a
        # module-level dict / list / set in one worker are invisible to the parent and to the other workers
        for w in range(self.n):
            for m in sim.modules:
                for k, v in self.fork_globals[m].items():
                    if isinstance(v, (dict, list, set)) and not k.startswith('__'):
                        try:
                            self.overlay[w][m][k] = copy.deepcopy(v)
                        except Exception:
                            pass
        # a forked worker also owns a copy of the process-wide generators as they were at fork time
        import random as _random
        import numpy as _np
        self.rng_state = [(_np.random.get_state(), _random.getstate()) for _ in range(self.n)]
        self.last_worker = -1
        sim.pools += 1
        sim.ctx.count('pools_created')
        sim.ctx.count('pool_workers', self.n)
        sim.log('pool', self.n)
        if initializer is not None:
            for w in range(self.n):
                self._in_worker(w, lambda: initializer(*initargs))

    # ---- process isolation ---------------------------------------------
    def _in_worker(self, w, thunk):
        import random as _random
        import numpy as _np
        parent_rng = (_np.random.get_state(), _random.getstate())
        _np.random.set_state(self.rng_state[w][0])
        _random.setstate(self.rng_state[w][1])
        saved = {}
        for m in self.sim.modules:
            d = m.__dict__
            saved[m] = dict(d)
            view = dict(self.fork_globals[m])
            view.update(self.overlay[w][m])
            d.clear()
            d.update(view)
        try:
            return thunk()
        finally:
            for m in self.sim.modules:
                d = m.__dict__
                base = self.fork_globals[m]
                ov = self.overlay[w][m]
                for k, v in d.items():
                    if k not in base or base[k] is not v:
                        ov[k] = v
                d.clear()
                d.update(saved[m])
            self.rng_state[w] = (_np.random.get_state(), _random.getstate())
            _np.random.set_state(parent_rng[0])
            _random.setstate(parent_rng[1])

    # ---- scheduling -------------------------------------------------------
    def _run_one(self, k=None):
        t = self.sim.tape
        if k is None:
            k = t.draw(len(self.queue), 'pool')
        ch = self.queue.pop(k)
        w = t.draw(self.n, 'pool')
        self.sim.dispatches += 1
        if self.sim.dispatches > MAX_DISPATCH:
            raise SimViolation('no_progress', 'more than %d pool dispatches' % MAX_DISPATCH)
        self.sim.ctx.steps += 1
        self.sim.log('dispatch', w, ch.idxs[0], len(ch.idxs))
        if w != self.last_worker and self.last_worker >= 0:
            self.sim.ctx.hit('worker_switch')
        self.last_worker = w
        failed = False
        # a chunk crosses to its worker as ONE pickle (CPython's mapstar batch): objects shared by several tasks of the chunk
        # (one kwargs dict repeated for every file, say) are still one object on the other side
        try:
            func, args = pickle.loads(pickle.dumps((ch.func, [ch.items[i] for i in ch.idxs])))
        except Exception as e:
            raise SimViolation('unpicklable_task', '%s: %s' % (type(e).__name__, e))
        for pos, i in enumerate(ch.idxs):
            if failed:
                ch.res.left -= 1
                continue
            arg = args[pos]
            try:
                r = self._in_worker(w, (lambda: func(*arg)) if ch.star else (lambda: func(arg)))
                ch.res.values[i] = pickle.loads(pickle.dumps(r))
            except SimViolation:
                raise
            except Exception as e:          # travels back to the parent, surfaces at get()
                if ch.res.exc is None:
                    ch.res.exc = e
                failed = True               # the rest of this chunk is abandoned, as in CPython's mapstar
            ch.res.left -= 1

    def _progress(self, where):
        """background progress: before each pool API call the workers may have
        completed any number of queued chunks"""
        if not self.queue or self.state == 'TERMINATE':
            return
        t = self.sim.tape
        mode = t.draw(3, 'pool')       # 0: nothing yet, 1: some, 2: everything
        if mode == 0:
            self.sim.ctx.hit('lazy_workers')
            return
        n = len(self.queue) if mode == 2 else 1 + t.draw(len(self.queue), 'pool')
        for _ in range(n):
            if self.queue:
                self._run_one()
        self.sim.ctx.hit('eager_workers')

    def _drain(self, res):
        while res.left > 0:
            mine = [k for k, ch in enumerate(self.queue) if ch.res is res]
            if not mine:
                raise SimViolation('hang', 'waiting on a result whose tasks were discarded (pool %s)' % self.state)
            if self.queue:
                self._run_one()

    def _submit(self, func, iterable, star, chunksize=None, single=False):
        if self.state != 'RUN':
            raise ValueError('Pool not running')
        self._progress('submit')
        items = list(iterable)
        n = len(items)
        res = AsyncResult(self, n, single)
        if n == 0:
            return res
        if chunksize is None:
            chunksize, extra = divmod(n, self.n * 4)
            if extra:
                chunksize += 1
        chunksize = max(1, chunksize)
        for lo in range(0, n, chunksize):
            self.queue.append(_Chunk(res, list(range(lo, min(n, lo + chunksize))), func, items, star))
        self.sim.ctx.count('pool_tasks', n)
        self.sim.ctx.count('pool_chunks', math.ceil(n / chunksize))
        return res

    # ---- API ---------------------------------------------------------------
    def map(self, func, iterable, chunksize=None):
        return self._submit(func, iterable, False, chunksize).get()

    def starmap(self, func, iterable, chunksize=None):
        return self._submit(func, iterable, True, chunksize).get()

    def map_async(self, func, iterable, chunksize=None, callback=None, error_callback=None):
        return self._submit(func, iterable, False, chunksize)

    def starmap_async(self, func, iterable, chunksize=None, callback=None, error_callback=None):
        return self._submit(func, iterable, True, chunksize)

    def apply_async(self, func, args=(), kwds=None, callback=None, error_callback=None):
        kwds = kwds or {}
        return self._submit(_Apply(func, kwds), [tuple(args)], True, 1, single=True)

    def apply(self, func, args=(), kwds=None):
        return self.apply_async(func, args, kwds).get()

    def imap(self, func, iterable, chunksize=1):
        return iter(self._submit(func, iterable, False, chunksize).get())

    def starmap_async_ordered(self, func, iterable, chunksize=None):
        return self._submit(func, iterable, True, chunksize)

    def imap_unordered(self, func, iterable, chunksize=1):
        if self.state != 'RUN':
            raise ValueError('Pool not running')
        items = list(iterable)
        order = self.sim.tape.perm(len(items), 'pool')
        res = self._submit(func, items, False, 1)
        vals = res.get()
        return iter([vals[i] for i in order])

    def close(self):
        self._progress('close')
        if self.state == 'RUN':
            self.state = 'CLOSE'

    def terminate(self):
        self._progress('terminate')
        self.state = 'TERMINATE'
        if self.queue:
            self.sim.ctx.hit('terminate_dropped_tasks')
            for ch in self.queue:
                ch.res.dropped = True
        self.queue = []

    def join(self):
        if self.state == 'RUN':
            raise ValueError('Pool is still running')
        while self.queue:
            self._run_one()

    def __enter__(self):
        if self.state != 'RUN':
            raise ValueError('Pool not running')
        return self

    def __exit__(self, *a):
        self.terminate()


class _Apply:
    def __init__(self, func, kwds):
        self.func, self.kwds = func, kwds

    def __call__(self, *args):
        return self.func(*args, **self.kwds)


class _PoolNS:
    """multiprocessing.pool namespace: ThreadPool shares the parent's globals (threads, not processes)"""

    def __init__(self, simmp):
        self._simmp = simmp

    def ThreadPool(self, processes=None, initializer=None, initargs=()):
        p = SimPool(self._simmp.sim, processes, None, ())
        p.fork_globals = {m: m.__dict__ for m in self._simmp.sim.modules}      # no isolation between threads
        p.overlay = [{m: {} for m in self._simmp.sim.modules} for _ in range(p.n)]
        p._in_worker = lambda w, thunk: thunk()
        if initializer is not None:
            for _ in range(p.n):
                initializer(*initargs)
        return p

    def Pool(self, *a, **k):
        return self._simmp.Pool(*a, **k)


class _Util:
    @staticmethod
    def get_temp_dir():
        return '/simulated-tmp'


class SimMP:
    """stands in for the `multiprocessing` module object"""

    def __init__(self, sim):
        self.sim = sim
        self.util = _Util()
        self.pool = _PoolNS(self)

    def Pool(self, processes=None, initializer=None, initargs=(), maxtasksperchild=None):
        return SimPool(self.sim, processes, initializer, initargs, maxtasksperchild)

    def Array(self, typecode_or_type, size_or_initializer, lock=True):
        tp = typecode_or_type
        if isinstance(tp, str):
            tp = {'f': ctypes.c_float, 'd': ctypes.c_double, 'i': ctypes.c_int, 'l': ctypes.c_long}[tp]
        if isinstance(size_or_initializer, int):
            arr = (tp * size_or_initializer)()        # zero-initialised, like RawArray
        else:
            arr = (tp * len(size_or_initializer))(*size_or_initializer)
        if lock:
            raise NotImplementedError('simulated Array supports lock=False only')
        fault = getattr(self.sim, 'alloc_fault', None)
        if fault:
            # the shared segment cannot be created: /dev/shm (or $TMPDIR) is full, or the machine is out of memory
            self.sim.ctx.fault('shared_array_' + fault)
            self.sim.log('array_fault', fault)
            if fault == 'enospc':
                raise OSError(28, 'No space left on device')
            raise OSError(12, 'Cannot allocate memory')
        self.sim.ctx.count('shared_arrays')
        return arr

    RawArray = Array

    def cpu_count(self):
        return self.sim.cpus

    def get_context(self, method=None):
        return self


class Sim:
    def __init__(self, ctx, modules):
        self.ctx = ctx
        self.tape = ctx.tape
        self.modules = modules
        self.pools = 0
        self.dispatches = 0
        self.cpus = 1 + ctx.tape.draw(16, 'pool')

    def log(self, *a):
        self.ctx.log.ev('pool', *a)


class FaultyMD:
    """proxy for the `md` module global of enspara.util.load: injects read faults"""

    def __init__(self, real, ctx, plan):
        self._real = real
        self._ctx = ctx
        self._plan = plan          # {basename: 'oserror' | 'short'}
        self.loads = 0

    def __getattr__(self, name):
        return getattr(self._real, name)

    def load(self, filename, *a, **kw):
        import os
        self.loads += 1
        f = self._plan.get(os.path.basename(str(filename))) if self._plan else None
        if f is not None and 'frame' not in kw:
            if f == 'oserror':
                self._ctx.fault('read_oserror')
                raise OSError(5, 'simulated I/O error', str(filename))
            if f == 'short':
                trj = self._real.load(filename, *a, **kw)
                if len(trj) > 1:
                    self._ctx.fault('read_short_file')
                    return trj[:-1]
                return trj
        return self._real.load(filename, *a, **kw)


@contextlib.contextmanager
def installed(ctx, read_faults=None, alloc_fault=None):
    """Replace the multiprocessing seam of enspara.util.load for the duration of a run."""
    import enspara.util.load as L
    sim = Sim(ctx, [L])
    sim.alloc_fault = alloc_fault
    old_mp, old_md = L.mp, L.md
    L.mp = SimMP(sim)
    if read_faults:
        L.md = FaultyMD(old_md, ctx, read_faults)
    try:
        yield sim
    finally:
        L.mp = old_mp
        L.md = old_md
        if 'shared_array' in L.__dict__:
            # a worker-side global leaked into the parent namespace
            del L.__dict__['shared_array']
            sim.leaked = True
