"""Reference models for the clustering properties (C01, C02, C09, C10, C14).

Everything here is written against plain NumPy in float64 and never calls
enspara.
"""
import itertools

import numpy as np

from ..engines.simmpi import SimViolation


# ---------------------------------------------------------------- metrics
def m_euclid(X, y):
    d = np.asarray(X, dtype=np.float64) - np.asarray(y, dtype=np.float64)
    return np.sqrt((d * d).sum(axis=1))


def m_manhattan(X, y):
    d = np.asarray(X, dtype=np.float64) - np.asarray(y, dtype=np.float64)
    return np.abs(d).sum(axis=1)


def m_chebyshev(X, y):
    d = np.asarray(X, dtype=np.float64) - np.asarray(y, dtype=np.float64)
    return np.abs(d).max(axis=1)


def sut_chebyshev(X, y):
    """A user callable handed to enspara as `metric` (obeys the triangle inequality)."""
    return np.abs(np.asarray(X, dtype=np.float64) - np.asarray(y, dtype=np.float64)).max(axis=1)


def m_sqeuclid(X, y):
    d = np.asarray(X, dtype=np.float64) - np.asarray(y, dtype=np.float64)
    return (d * d).sum(axis=1)


def sut_sqeuclid(X, y):
    """A user callable that is NOT a metric (squared Euclidean distance violates the triangle inequality): legal for every
    entry point that does not ask for the triangle-inequality shortcut."""
    d = np.asarray(X, dtype=np.float64) - np.asarray(y, dtype=np.float64)
    return (d * d).sum(axis=1)


NON_METRIC = ('callable_sq',)

_REUSE = {}


def sut_chebyshev_reuse(X, y):
    """A user callable that returns the same output array on every call of a given length (a common optimisation in
    user code); whoever keeps the result must copy it."""
    from ..engines import simmpi
    key = simmpi.COMM_WORLD.Get_rank()                  # one scratch buffer per (simulated) process
    n = len(X)
    buf = _REUSE.get(key)
    if buf is None or len(buf) < n:
        buf = _REUSE[key] = np.empty(max(n, 256), dtype=np.float64)
    out = buf[:n]                                       # a prefix view: calls of ANY length share this memory
    out[...] = np.abs(np.asarray(X, dtype=np.float64) - np.asarray(y, dtype=np.float64)).max(axis=1)
    return out


_TOPS = {}


def top_for(n_atoms):
    import mdtraj as md
    if n_atoms not in _TOPS:
        top = md.Topology()
        res = top.add_residue('ALA', top.add_chain())
        for i in range(n_atoms):
            top.add_atom('C%d' % i, md.element.carbon, res)
        _TOPS[n_atoms] = top
    return _TOPS[n_atoms]


def as_traj(X):
    """(n, atoms, 3) or (atoms, 3) coordinates as a fresh md.Trajectory"""
    import mdtraj as md
    X = np.asarray(X)
    if X.ndim == 2:
        X = X[None]
    return md.Trajectory(np.array(X, dtype=np.float32), top_for(X.shape[1]))


def m_rmsd(X, y):
    """the model of the 'rmsd' metric is mdtraj's own routine on the whole data set (a trusted dependency, like NumPy);
    a frame's value depends in the last bits on the batch it is evaluated in - see rmsd_noise"""
    import mdtraj as md
    return md.rmsd(as_traj(X), as_traj(y)).astype(np.float64)


RMSD_DELTA = 2e-4


def rmsd_noise(d):
    """how far two float32 evaluations of the same RMSD may differ (same frames, but already moved to their centroid by an
    earlier call, or evaluated as part of another batch): the mean squared deviation is a difference of O(1) terms whose
    leading eigenvalue mdtraj finds by Newton iteration in float32.  Measured on 3e5 frame pairs of 6-10 atoms in [0, 1) nm:
    up to 1e-5 in the mean squared deviation, with a heavy tail (a soak found 5e-6 where 4000 samples had shown 2e-6), so
    delta is 2e-4: the error of the root is delta / 2d for ordinary values (2e-4 at 0.5 nm) and up to sqrt(delta) around
    zero (a frame against itself comes out as 0 .. 5e-4).  A wrong centre is off by O(0.1)."""
    d = np.asarray(d, dtype=np.float64)
    return np.sqrt(d * d + RMSD_DELTA) - d


def no_noise(d):
    return np.zeros_like(np.asarray(d, dtype=np.float64))


def frame_equal(metric_name, c, x):
    """is the reported centre `c` the frame `x`?  Bit for bit - except for RMSD data, where mdtraj's rmsd moves every frame it
    touches to its centroid in place, so a centre is the frame up to that translation"""
    c = np.asarray(c)
    x = np.asarray(x)
    if c.size != x.size:
        return False
    c = c.reshape(x.shape)
    if metric_name != 'rmsd':
        return bool(np.array_equal(c, x))
    c = c.astype(np.float64)
    x = x.astype(np.float64)
    return bool(np.allclose(c - c.mean(axis=0), x - x.mean(axis=0), rtol=0, atol=4e-6))


def noise_for(metric_name):
    return rmsd_noise if metric_name == 'rmsd' else no_noise


METRICS = {
    'rmsd': m_rmsd,
    'euclidean': m_euclid,
    'manhattan': m_manhattan,
    'callable': m_chebyshev,
    'callable_reuse': m_chebyshev,
    'callable_sq': m_sqeuclid,
}


def sut_metric(name):
    if name == 'callable_reuse':
        return sut_chebyshev_reuse
    if name == 'callable_sq':
        return sut_sqeuclid
    return sut_chebyshev if name == 'callable' else name


def rtol_for(dtype):
    return 2e-6 if np.dtype(dtype) == np.float32 else 1e-11


# ---------------------------------------------------------------- data
DTYPES = ('float64', 'float64', 'float32', 'int32', 'int64')


def gen_points(tape, n, dim, dtype, jitter=True):
    """n distinct points.  Coarse grid values come from the tape (so they
    shrink), a fine jitter from a PRNG seeded by one tape draw."""
    dt = np.dtype(dtype)
    for attempt in range(20):
        if dt.kind == 'i':
            span = 2000 if jitter else 12
            g = np.array(tape.block(n * dim, span), dtype=np.int64).reshape(n, dim)
            X = g.astype(dt)
        else:
            g = np.array(tape.block(n * dim, 48), dtype=np.float64).reshape(n, dim) / 4.0
            if jitter:
                rs = np.random.RandomState(tape.draw(2 ** 31 - 1))
                g = g + rs.uniform(-0.11, 0.11, size=g.shape)
            X = g.astype(dt)
        if len({r.tobytes() for r in X}) == n:
            return np.ascontiguousarray(X)
    # fall back: force distinctness on the first coordinate (grid values span < 12, jitter < 0.25)
    X = X.astype(np.float64)
    X[:, 0] = np.arange(n) * 13 + (X[:, 0] % 12)
    X = np.ascontiguousarray(X.astype(dt))
    assert len({r.tobytes() for r in X}) == n
    return X


def gen_lengths(tape, n_traj, max_len=9):
    """Trajectory lengths, biased towards 1-frame trajectories and equal-length groups."""
    mode = tape.draw(5)
    out = []
    base = tape.irange(1, max_len)
    if mode == 4 and n_traj >= 3 and max_len >= 3:
        # unequal lengths whose mean is the first length (n * lengths[0] == sum(lengths)): looks rectangular to a careless test
        base = tape.irange(2, max_len - 1)
        out = [base]
        while len(out) + 2 <= n_traj:
            dlt = tape.irange(1, min(base - 1, max_len - base))
            out += [base - dlt, base + dlt]
        while len(out) < n_traj:
            out.append(base)
        tail = out[1:]
        order = tape.perm(len(tail))
        return [out[0]] + [tail[i] for i in order]
    for i in range(n_traj):
        if mode == 0:
            out.append(base)                                  # all equal
        elif mode == 1:
            out.append(base if tape.flag(2, 3) else tape.irange(1, max_len))   # equal groups
        elif mode == 2:
            out.append(1 if tape.flag(1, 3) else tape.irange(1, max_len))      # single frames
        else:
            out.append(tape.irange(1, max_len))
    return out


def stripe(lengths, n):
    """trajectory ids owned by each rank under round-robin dealing"""
    return [list(range(r, len(lengths), n)) for r in range(n)]


def local_to_global(lengths, n):
    """for each rank, the global frame index of each local frame"""
    starts = np.concatenate([[0], np.cumsum(lengths)[:-1]]).astype(int)
    out = []
    for r, trajs in enumerate(stripe(lengths, n)):
        idx = [np.arange(starts[t], starts[t] + lengths[t]) for t in trajs]
        out.append(np.concatenate(idx) if idx else np.zeros(0, dtype=int))
    return out


# ---------------------------------------------------------------- k-centers model
class Greedy:
    """Farthest-point replay.  `margins[i]` is the gap between the largest and
    second largest running-minimum distance when centre i+1 was chosen
    (relative to the largest), `radii[i]` the covering radius after i+1 centres."""

    def __init__(self, X, metric, init=None):
        self.X = X
        self.metric = metric
        self.centers = []
        self.radii = []
        self.margins = []
        self.d = np.full(len(X), np.inf)
        self.lab = np.full(len(X), -1, dtype=int)
        self.assign_margin = np.inf
        for c in (init if init is not None else [0]):
            self._add(c)

    def _add(self, c):
        dist = self.metric(self.X, self.X[c])
        # how close does any frame come to being equidistant to the new centre and its current one?
        fin = np.isfinite(self.d)
        if fin.any():
            scale = max(float(dist.max()), float(self.d[fin].max()), 1e-300)
            gap = np.abs(dist[fin] - self.d[fin]) / scale
            both0 = (dist[fin] == 0) & (self.d[fin] == 0)
            gap = gap[~both0]
            if gap.size:
                self.assign_margin = min(self.assign_margin, float(gap.min()))
        upd = dist < self.d
        self.d[upd] = dist[upd]
        self.lab[upd] = len(self.centers)
        self.centers.append(int(c))
        self.radii.append(float(self.d.max()))

    def next_margin(self):
        """(argmax, relative gap to the runner-up)"""
        if len(self.d) < 2:
            return int(np.argmax(self.d)), 1.0
        order = np.argsort(self.d)
        top, second = self.d[order[-1]], self.d[order[-2]]
        gap = (top - second) / top if top > 0 else 0.0
        return int(order[-1]), float(gap)

    def step(self):
        c, gap = self.next_margin()
        self.margins.append(gap)
        self._add(c)
        return c


def greedy_run(X, metric, n_clusters, cutoff, init=None, tol=1e-6, cut_tol=None, noise=no_noise):
    """Replay k-centers.  Returns (Greedy, tie_free) where tie_free says that
    every choice and every stopping decision was unambiguous beyond `tol`."""
    g = Greedy(X, metric, init)
    tie_free = True
    n_clusters = np.inf if n_clusters is None else n_clusters
    cutoff = 0 if cutoff is None else cutoff

    ct = tol if cut_tol is None else cut_tol

    def near_cut(r):
        return cutoff > 0 and abs(r - cutoff) <= ct * max(cutoff, r, 1e-300) + float(noise(r))

    if near_cut(g.radii[-1]):
        tie_free = False
    while len(g.centers) < n_clusters and g.radii[-1] > cutoff and len(g.centers) < len(X):
        _, gap = g.next_margin()
        top = float(g.d.max())
        if gap <= tol or gap * top <= 2 * float(noise(top * (1 - gap))):
            tie_free = False
        g.step()
        if near_cut(g.radii[-1]):
            tie_free = False
    return g, tie_free


def optimal_radius(X, metric, k):
    """exhaustive optimum of the discrete k-centre problem (centres among the points)"""
    n = len(X)
    D = np.array([metric(X, X[i]) for i in range(n)])
    best = np.inf
    for comb in itertools.combinations(range(n), min(k, n)):
        r = D[list(comb)].min(axis=0).max()
        if r < best:
            best = r
    return float(best)


# ---------------------------------------------------------------- C01 oracle
def check_consistent(X, metric_name, center_indices, centers, labels, distances, sut_callable=None,
                     where='', dtype=None, allow_dup_centers=False):
    """The self-consistency clauses of C01 on a (re-assembled) result."""
    n = len(X)
    k = len(center_indices)
    model = METRICS[metric_name]
    rtol = rtol_for(dtype if dtype is not None else X.dtype)

    def bad(cls, msg):
        raise SimViolation(cls, '%s %s' % (where, msg))

    if k < 1:
        bad('no_centers', 'result has no centres')
    ci = np.asarray([int(c) for c in center_indices])
    if ci.min() < 0 or ci.max() >= n:
        bad('center_index_out_of_data', 'centre indices %s for %d frames' % (ci.tolist(), n))
    if len(centers) != k:
        bad('center_count_mismatch', '%d centre coordinates for %d centre indices' % (len(centers), k))
    for i in range(k):
        c = np.asarray(centers[i])
        if c.shape != X[ci[i]].shape or not frame_equal(metric_name, c, X[ci[i]]):
            bad('center_not_frame', 'centre %d != frame at its index %d: %s vs %s' % (i, ci[i], c, X[ci[i]]))
    labels = np.asarray(labels)
    distances = np.asarray(distances)
    if labels.shape != (n,) or distances.shape != (n,):
        bad('bad_shape', 'labels %s distances %s for %d frames' % (labels.shape, distances.shape, n))
    if not np.issubdtype(labels.dtype, np.integer):
        bad('labels_not_integer', str(labels.dtype))
    if labels.min() < 0 or labels.max() >= k:
        bad('label_out_of_range', 'labels in [%d, %d] with %d centres' % (labels.min(), labels.max(), k))
    D = np.array([model(X, X[c]) for c in ci])            # k x n, float64 model
    own = D[labels, np.arange(n)]
    scale = np.maximum(np.abs(own), 1e-300)
    err = np.abs(distances - own)
    noise = noise_for(metric_name)
    tol = rtol * np.maximum(scale, D.max() if D.size else 1.0) + noise(own)
    if np.any(err > tol):
        f = int(np.argmax(err - tol))
        bad('distance_mismatch', 'frame %d: reported %.17g, metric to its centre %d (frame %d) is %.17g' %
            (f, distances[f], labels[f], ci[labels[f]], own[f]))
    closer = D.min(axis=0)
    slack = rtol * np.maximum(D.max(), 1.0) * 4 + noise(closer) + noise(own)
    if np.any(closer < own - slack):
        f = int(np.argmax(own - closer))
        bad('not_nearest', 'frame %d assigned to centre %d at %.17g but centre %d is at %.17g' %
            (f, labels[f], own[f], int(np.argmin(D[:, f])), closer[f]))
    for i in range(k):
        if labels[ci[i]] != i:
            # allowed only if two centres are the same frame (possible for k-medoids cold starts? no: distinct points)
            if allow_dup_centers and ci[labels[ci[i]]] == ci[i]:
                continue
            bad('center_label', 'centre %d (frame %d) carries label %d' % (i, ci[i], labels[ci[i]]))
        if distances[ci[i]] != 0 and not (metric_name == 'rmsd' and 0 <= distances[ci[i]] <= float(rmsd_noise(0.0))):
            bad('center_distance', 'centre %d (frame %d) has distance %.17g' % (i, ci[i], distances[ci[i]]))
    if sut_callable is not None:
        # exact recomputation with the very metric the library used
        for i in range(k):
            members = np.where(labels == i)[0]
            if len(members) == 0:
                continue
            got = np.asarray(sut_callable(X[members], X[ci[i]])).reshape(-1)
            if not np.array_equal(got, distances[members]):
                f = members[int(np.argmax(np.abs(got - distances[members])))]
                bad('distance_not_metric_value', 'frame %d: reported %.17g, metric(frame, centre %d) = %.17g' %
                    (f, distances[f], i, got[list(members).index(f)]))


def cost(distances):
    d = np.asarray(distances, dtype=np.float64)
    return float(np.mean(d * d))


def brute_nearest(X, C, metric):
    """(min distance per frame, set of minimisers) for centres C"""
    D = np.array([metric(X, c) for c in C])
    return D.min(axis=0), D
