/* _simnative — installs libsimrt's tracking allocator as NumPy's data-memory
 * handler.  The handler is context-local in NumPy, so every thread that is to
 * be covered (each simulated MPI rank) calls install() itself. */
#define PY_SSIZE_T_CLEAN
#include <Python.h>
#define NPY_NO_DEPRECATED_API NPY_1_22_API_VERSION
#define NPY_TARGET_VERSION NPY_1_22_API_VERSION
#include <numpy/arrayobject.h>

extern void *sim_malloc(void *, size_t);
extern void *sim_calloc(void *, size_t, size_t);
extern void *sim_realloc(void *, void *, size_t);
extern void sim_free(void *, void *, size_t);

static PyDataMem_Handler handler = {"simalloc", 1, {NULL, sim_malloc, sim_calloc, sim_realloc, sim_free}};
static PyObject *old_handler = NULL;

static PyObject *install(PyObject *self, PyObject *a) {
    PyObject *cap = PyCapsule_New(&handler, "mem_handler", NULL);
    if (!cap) return NULL;
    PyObject *old = PyDataMem_SetHandler(cap);
    Py_DECREF(cap);
    if (!old) return NULL;
    if (!old_handler) old_handler = old; else Py_DECREF(old);
    Py_RETURN_NONE;
}
static PyObject *uninstall(PyObject *self, PyObject *a) {
    if (old_handler) { PyObject *o = PyDataMem_SetHandler(old_handler); Py_XDECREF(o); }
    Py_RETURN_NONE;
}
static PyObject *handler_name(PyObject *self, PyObject *a) {
    PyObject *h = PyDataMem_GetHandler();
    if (!h) return NULL;
    PyDataMem_Handler *p = (PyDataMem_Handler *)PyCapsule_GetPointer(h, "mem_handler");
    PyObject *r = p ? PyUnicode_FromString(p->name) : NULL;
    Py_DECREF(h);
    return r;
}
static PyMethodDef M[] = {
    {"install", install, METH_NOARGS, ""},
    {"uninstall", uninstall, METH_NOARGS, ""},
    {"handler_name", handler_name, METH_NOARGS, ""},
    {0}};
static struct PyModuleDef mod = {PyModuleDef_HEAD_INIT, "_simnative", 0, -1, M};
PyMODINIT_FUNC PyInit__simnative(void) { import_array(); return PyModule_Create(&mod); }
