/* libsimrt — deterministic runtime pieces for the enspara simulator.
 *
 *  (1) simalloc: a tracking allocator (used as NumPy's data-memory handler)
 *      with seeded poison fill, 64-byte red zones and a live-buffer list.
 *  (2) simgomp: the GNU OpenMP entry points the compiled enspara kernels
 *      reference, implemented as a team of virtual threads (ucontext
 *      coroutines on the calling OS thread) whose order is taken from a
 *      decision block supplied by the harness, and whose memory effects are
 *      (optionally) snapshot-isolated and merged last-writer-wins at barriers.
 *
 *  Nothing here reads a clock or an unseeded random source.
 */
#define _GNU_SOURCE
#include <ucontext.h>
#include <stdlib.h>
#include <stdio.h>
#include <string.h>
#include <stdint.h>
#include <stdbool.h>
#include <pthread.h>

/* ------------------------------------------------------------------ */
/* simalloc                                                            */
/* ------------------------------------------------------------------ */
#define RZ 64
#define MAGIC 0xC0FFEE1234ABCDEFULL
typedef struct hdr {
    size_t size;
    uint64_t magic;
    struct hdr *prev, *next;
    uint64_t serial;
} hdr_t;                       /* 40 bytes, lives at the start of the front red zone */

static pthread_mutex_t mu = PTHREAD_MUTEX_INITIALIZER;
static hdr_t *live_head = NULL;
static uint64_t serial_ctr = 0;
static uint64_t poison_state = 0x9E3779B97F4A7C15ULL;
static int poison_mode = 0;
static long st_malloc = 0, st_calloc = 0, st_realloc = 0, st_free = 0,
            st_rz_bad = 0, st_live = 0, st_live_bytes = 0, st_poisoned_bytes = 0;

static inline uint64_t sm64(uint64_t *s) {
    uint64_t z = (*s += 0x9E3779B97F4A7C15ULL);
    z = (z ^ (z >> 30)) * 0xBF58476D1CE4E5B9ULL;
    z = (z ^ (z >> 27)) * 0x94D049BB133111EBULL;
    return z ^ (z >> 31);
}

/* poison modes: 0 zeros (the "lucky" heap), 1 quiet-NaN words, 2 all ones,
 * 3 seeded random bytes, 4 small integers (1..3 as int64/int32/float-denormal),
 * 5 the double 1.0 / 2.0 (plausible floats), 6 large positive doubles (1e300) */
static void fill(unsigned char *p, size_t n) {
    size_t i;
    uint64_t q;
    st_poisoned_bytes += (long)n;
    switch (poison_mode) {
    case 0: memset(p, 0, n); return;
    case 1: q = 0x7FF8DEADBEEF0001ULL; break;
    case 2: memset(p, 0xFF, n); return;
    case 3:
        for (i = 0; i + 8 <= n; i += 8) { q = sm64(&poison_state); memcpy(p + i, &q, 8); }
        for (; i < n; i++) p[i] = (unsigned char)sm64(&poison_state);
        return;
    case 4:
        for (i = 0; i + 8 <= n; i += 8) { q = 1 + (sm64(&poison_state) % 3); memcpy(p + i, &q, 8); }
        for (; i < n; i++) p[i] = 1;
        return;
    case 5:
        for (i = 0; i + 8 <= n; i += 8) {
            q = (sm64(&poison_state) & 1) ? 0x3FF0000000000000ULL : 0x4000000000000000ULL;
            memcpy(p + i, &q, 8);
        }
        for (; i < n; i++) p[i] = 0x3F;
        return;
    case 6: q = 0x7E37E43C8800759CULL; break;   /* 1e300 */
    default: memset(p, 0, n); return;
    }
    for (i = 0; i + 8 <= n; i += 8) memcpy(p + i, &q, 8);
    for (; i < n; i++) p[i] = 0x7F;
}

static void *wrap(unsigned char *raw, size_t size) {
    hdr_t *h = (hdr_t *)raw;
    memset(raw, 0xA5, RZ);
    h->size = size; h->magic = MAGIC; h->serial = ++serial_ctr;
    h->prev = NULL; h->next = live_head;
    if (live_head) live_head->prev = h;
    live_head = h;
    memset(raw + RZ + size, 0x5A, RZ);
    st_live++; st_live_bytes += (long)size;
    return raw + RZ;
}
static void unlink_hdr(hdr_t *h) {
    if (h->prev) h->prev->next = h->next; else live_head = h->next;
    if (h->next) h->next->prev = h->prev;
    st_live--; st_live_bytes -= (long)h->size;
}
/* 0 ok, 1 red zone damaged, -1 not ours */
static int check_hdr(hdr_t *h) {
    unsigned char *raw = (unsigned char *)h;
    if (h->magic != MAGIC) return -1;
    for (size_t i = sizeof(hdr_t); i < RZ; i++) if (raw[i] != 0xA5) return 1;
    for (size_t i = 0; i < RZ; i++) if (raw[RZ + h->size + i] != 0x5A) return 1;
    return 0;
}

void *sim_malloc(void *ctx, size_t size) {
    (void)ctx;
    unsigned char *raw = malloc(size + 2 * RZ);
    if (!raw) return NULL;
    pthread_mutex_lock(&mu);
    st_malloc++;
    void *u = wrap(raw, size);
    fill(u, size);
    pthread_mutex_unlock(&mu);
    return u;
}
void *sim_calloc(void *ctx, size_t n, size_t e) {
    (void)ctx;
    size_t size = n * e;
    unsigned char *raw = malloc(size + 2 * RZ);
    if (!raw) return NULL;
    pthread_mutex_lock(&mu);
    st_calloc++;
    void *u = wrap(raw, size);
    memset(u, 0, size);
    pthread_mutex_unlock(&mu);
    return u;
}
void sim_free(void *ctx, void *p, size_t size) {
    (void)ctx; (void)size;
    if (!p) return;
    hdr_t *h = (hdr_t *)((unsigned char *)p - RZ);
    pthread_mutex_lock(&mu);
    st_free++;
    int c = check_hdr(h);
    if (c < 0) { pthread_mutex_unlock(&mu); free(p); return; }  /* not ours: handler changed mid-life */
    if (c > 0) st_rz_bad++;
    unlink_hdr(h);
    h->magic = 0;
    memset(p, 0xDD, h->size);
    pthread_mutex_unlock(&mu);
    free(h);
}
void *sim_realloc(void *ctx, void *p, size_t size) {
    if (!p) return sim_malloc(ctx, size);
    hdr_t *h = (hdr_t *)((unsigned char *)p - RZ);
    if (h->magic != MAGIC) return realloc(p, size);
    unsigned char *nr = malloc(size + 2 * RZ);
    if (!nr) return NULL;
    pthread_mutex_lock(&mu);
    st_realloc++;
    if (check_hdr(h) > 0) st_rz_bad++;
    size_t old = h->size;
    unlink_hdr(h);
    void *u = wrap(nr, size);
    size_t k = old < size ? old : size;
    memcpy(u, p, k);
    if (size > k) fill((unsigned char *)u + k, size - k);
    h->magic = 0;
    pthread_mutex_unlock(&mu);
    free(h);
    return u;
}

void sim_alloc_config(int mode, unsigned long long seed) { poison_mode = mode; poison_state = seed; }
/* walk all live buffers, return number with damaged red zones (plus those seen on free since last reset) */
long sim_check_all(void) {
    long bad = 0;
    pthread_mutex_lock(&mu);
    for (hdr_t *h = live_head; h; h = h->next) if (check_hdr(h) != 0) bad++;
    bad += st_rz_bad;
    pthread_mutex_unlock(&mu);
    return bad;
}
void sim_alloc_reset_bad(void) { st_rz_bad = 0; }
void sim_alloc_stats(long *o) {
    o[0] = st_malloc; o[1] = st_calloc; o[2] = st_realloc; o[3] = st_free;
    o[4] = st_rz_bad; o[5] = st_live; o[6] = st_live_bytes; o[7] = st_poisoned_bytes;
}
uint64_t sim_alloc_serial(void) { return serial_ctr; }
/* is p inside a live tracked buffer? returns size or -1 */
long sim_alloc_owns(void *p) {
    long r = -1;
    pthread_mutex_lock(&mu);
    for (hdr_t *h = live_head; h; h = h->next) {
        unsigned char *u = (unsigned char *)h + RZ;
        if ((unsigned char *)p >= u && (unsigned char *)p < u + h->size + (h->size == 0)) { r = (long)h->size; break; }
    }
    pthread_mutex_unlock(&mu);
    return r;
}

/* ------------------------------------------------------------------ */
/* simgomp                                                             */
/* ------------------------------------------------------------------ */
#define MAXT 128
#define STK (512 * 1024)
#define MAXW 4096
#define WATCH_CAP (8u << 20)      /* buffers larger than this are not isolated */

static int cfg_T = 1, cfg_iso = 0;
static const uint32_t *dec = NULL; static long dec_n = 0, dec_i = 0;
static int in_par = 0, cur = -1, team = 1;
static ucontext_t sched_ctx, tctx[MAXT];
static char *stk[MAXT];
static int state[MAXT];           /* 0 runnable, 1 at barrier, 2 done */
static void (*g_fn)(void *); static void *g_data;
static long g_regions = 0, g_switch = 0, g_barriers = 0, g_conflict = 0, g_diff = 0,
            g_sync_seen = 0, g_iso_regions = 0, g_watched_bytes = 0, g_dec_used = 0,
            g_maxteam = 0, g_dyn_chunks = 0, g_budget_hit = 0;
static long cfg_switch_budget = 2000000;
static long dl_yields;

/* watched buffers for the current region */
static unsigned char *wb[MAXW]; static size_t wn[MAXW]; static int nwb = 0;
static unsigned char *snap[MAXW];
static unsigned char *priv[MAXT][MAXW];
static void *extra_p[64]; static size_t extra_n[64]; static int n_extra = 0;
/* critical sections (omp critical / atomic / locks, and Cython's `with gil:` inside a region): what a thread writes while
 * it is inside one is committed to `crit` at once and is what the next thread sees when it enters one - the threads stay
 * isolated from each other everywhere else.  cmask[k] marks the bytes thread k wrote inside critical sections: those are
 * merged from `crit`, not from the thread's private copy, and are no write-write conflict. */
static unsigned char *crit[MAXW];
static unsigned char *cmask[MAXT][MAXW];
static unsigned char *cs_pre[MAXW], *cs_in[MAXW];
static int cs_depth[MAXT];
static int cur_iso = 0;
static long g_cs_sections = 0, g_overlap = 0;

void sim_gomp_config(int T, int iso) { cfg_T = T < 1 ? 1 : (T > MAXT ? MAXT : T); cfg_iso = iso; }
void sim_gomp_decisions(const uint32_t *d, long n) { dec = d; dec_n = n; dec_i = 0; }
long sim_gomp_decisions_used(void) { return dec_i; }
void sim_gomp_watch(void *p, size_t n) { if (n_extra < 64) { extra_p[n_extra] = p; extra_n[n_extra] = n; n_extra++; } }
void sim_gomp_unwatch_all(void) { n_extra = 0; }
void sim_gomp_set_budget(long b) { cfg_switch_budget = b; }
void sim_gomp_stats(long *o) {
    o[0] = g_regions; o[1] = g_switch; o[2] = g_barriers; o[3] = g_conflict; o[4] = g_diff;
    o[5] = g_sync_seen; o[6] = g_iso_regions; o[7] = g_watched_bytes; o[8] = g_dec_used;
    o[9] = g_maxteam; o[10] = g_dyn_chunks; o[11] = g_budget_hit; o[12] = g_overlap; o[13] = g_cs_sections;
}
void sim_gomp_reset_stats(void) {
    g_regions = g_switch = g_barriers = g_conflict = g_diff = g_sync_seen = g_iso_regions = 0;
    g_watched_bytes = g_dec_used = g_maxteam = g_dyn_chunks = g_budget_hit = 0;
    g_overlap = g_cs_sections = 0;
}

static uint32_t decide(uint32_t n) {
    if (n <= 1) return 0;
    if (dec && dec_i < dec_n) { g_dec_used++; return dec[dec_i++] % n; }
    return 0;
}

static void collect_watch(void) {
    nwb = 0;
    pthread_mutex_lock(&mu);
    for (hdr_t *h = live_head; h && nwb < MAXW - 64; h = h->next) {
        if (h->size == 0 || h->size > WATCH_CAP) continue;
        wb[nwb] = (unsigned char *)h + RZ; wn[nwb] = h->size; nwb++;
    }
    pthread_mutex_unlock(&mu);
    for (int i = 0; i < n_extra; i++) { wb[nwb] = extra_p[i]; wn[nwb] = extra_n[i]; nwb++; }
    for (int b = 0; b < nwb; b++) g_watched_bytes += (long)wn[b];
}
static void take_snapshot(void) {
    for (int b = 0; b < nwb; b++) { snap[b] = realloc(snap[b], wn[b]); memcpy(snap[b], wb[b], wn[b]); }
}
static void load_private(int k) {
    for (int b = 0; b < nwb; b++) memcpy(wb[b], priv[k][b] ? priv[k][b] : snap[b], wn[b]);
}
static void save_private(int k) {
    for (int b = 0; b < nwb; b++) {
        if (!priv[k][b]) {
            if (memcmp(wb[b], snap[b], wn[b]) == 0) continue;   /* untouched: keep sharing the snapshot */
            priv[k][b] = malloc(wn[b]);
        }
        memcpy(priv[k][b], wb[b], wn[b]);
    }
}
static void merge(int T) {
    int order[MAXT];
    for (int k = 0; k < T; k++) order[k] = k;
    for (int k = T - 1; k > 0; k--) { int j = (int)decide((uint32_t)k + 1); int t = order[k]; order[k] = order[j]; order[j] = t; }
    for (int b = 0; b < nwb; b++) {
        unsigned char *out = NULL, *wr = NULL;
        for (int oi = 0; oi < T; oi++) {
            int k = order[oi];
            unsigned char *p = priv[k][b];
            if (!p) continue;
            if (!out) { out = malloc(wn[b]); wr = calloc(wn[b], 1); memcpy(out, snap[b], wn[b]); }
            unsigned char *cm = cmask[k][b];
            for (size_t i = 0; i < wn[b]; i++) if (p[i] != snap[b][i] && !(cm && cm[i])) {
                if (wr[i] && out[i] != p[i]) g_conflict++;
                else if (wr[i]) g_overlap++;             /* two threads left the same new value in one byte */
                wr[i] = 1; out[i] = p[i]; g_diff++;
            }
        }
        if (crit[b]) {
            if (!out) { out = malloc(wn[b]); wr = calloc(wn[b], 1); memcpy(out, snap[b], wn[b]); }
            for (size_t i = 0; i < wn[b]; i++) if (crit[b][i] != snap[b][i]) {
                if (wr[i] && out[i] != crit[b][i]) g_conflict++;      /* also written outside any critical section */
                out[i] = crit[b][i]; g_diff++;
            }
            free(crit[b]); crit[b] = NULL;
        }
        if (out) { memcpy(wb[b], out, wn[b]); free(out); free(wr); }
        else memcpy(wb[b], snap[b], wn[b]);
    }
    for (int k = 0; k < T; k++) for (int b = 0; b < nwb; b++) {
        free(priv[k][b]); priv[k][b] = NULL;
        if (cmask[k][b]) { free(cmask[k][b]); cmask[k][b] = NULL; }
    }
}

static void tramp(void) {
    g_fn(g_data);
    state[cur] = 2;
    swapcontext(&tctx[cur], &sched_ctx);
}

/* dynamic-loop work sharing state (one loop at a time per region) */
/* Work-sharing loops with a dispatcher (dynamic / guided / runtime schedules).  Every thread of a team meets the
 * work-sharing constructs of a region in the same order, so the n-th loop a thread enters is the same loop instance for
 * all of them, whenever each of them gets there (with `nowait` one thread may be done with a loop before another one
 * has entered it).  Instances live in a small ring indexed by that per-thread sequence number. */
#define DL_RING 64
typedef struct { long id, next, end, incr, chunk; } dl_inst_t;
static dl_inst_t dl_tab[DL_RING];
static long ws_seq[MAXT + 1];           /* loops entered so far, per thread of the team (slot MAXT: outside any team) */
static dl_inst_t *dl_cur[MAXT + 1];     /* the loop instance a thread is iterating */
static int dl_prearmed = 0;
static int dl_slot(void) { return (in_par && cur >= 0) ? cur : MAXT; }
static void dl_region_reset(int prearmed) {
    for (int i = 0; i < DL_RING; i++) if (!(prearmed && i == 0)) dl_tab[i].id = -1;
    for (int k = 0; k < MAXT; k++) { ws_seq[k] = prearmed ? 1 : 0; dl_cur[k] = prearmed ? &dl_tab[0] : NULL; }
}

static void run_team(void (*fn)(void *), void *data, unsigned nt) {
    int T = nt ? (int)nt : cfg_T;
    if (T > MAXT) T = MAXT;
    if (T < 1) T = 1;
    g_regions++;
    dl_yields = 0;
    if (T > g_maxteam) g_maxteam = T;
    if (T == 1 && !cfg_iso) {           /* fast path: one thread, shared memory */
        in_par = 1; team = 1; cur = 0; dl_region_reset(dl_prearmed); dl_prearmed = 0;
        fn(data);
        in_par = 0; cur = -1; team = 1;
        return;
    }
    team = T; in_par = 1; g_fn = fn; g_data = data; dl_region_reset(dl_prearmed); dl_prearmed = 0;
    int iso = cfg_iso;
    cur_iso = iso;
    for (int k = 0; k < T; k++) cs_depth[k] = 0;
    if (iso) { collect_watch(); take_snapshot(); g_iso_regions++; }
    for (int k = 0; k < T; k++) {
        if (!stk[k]) stk[k] = malloc(STK);
        getcontext(&tctx[k]);
        tctx[k].uc_stack.ss_sp = stk[k]; tctx[k].uc_stack.ss_size = STK; tctx[k].uc_link = &sched_ctx;
        makecontext(&tctx[k], tramp, 0);
        state[k] = 0;
    }
    long switches = 0;
    for (;;) {
        int run[MAXT], nr = 0, nb = 0, nd = 0;
        for (int k = 0; k < T; k++) { if (state[k] == 0) run[nr++] = k; else if (state[k] == 1) nb++; else nd++; }
        if (nr == 0) {
            if (iso) { merge(T); if (nd < T) take_snapshot(); }
            if (nd == T) break;
            if (nb > 0 && nd > 0) { fprintf(stderr, "simgomp: barrier deadlock\n"); abort(); }
            for (int k = 0; k < T; k++) if (state[k] == 1) state[k] = 0;
            g_barriers++;
            continue;
        }
        cur = run[decide((uint32_t)nr)];
        g_switch++;
        if (++switches > cfg_switch_budget) { g_budget_hit++; }
        if (iso) load_private(cur);
        swapcontext(&sched_ctx, &tctx[cur]);
        if (iso) save_private(cur);
    }
    in_par = 0; cur = -1; team = 1; cur_iso = 0;
}

static void cs_enter(void) {
    g_sync_seen++;
    if (!(in_par && team > 1 && cur_iso && cur >= 0)) return;
    if (cs_depth[cur]++ > 0) return;
    g_cs_sections++;
    for (int b = 0; b < nwb; b++) {
        cs_pre[b] = realloc(cs_pre[b], wn[b]); memcpy(cs_pre[b], wb[b], wn[b]);
        if (crit[b]) for (size_t i = 0; i < wn[b]; i++) if (crit[b][i] != snap[b][i]) wb[b][i] = crit[b][i];
        cs_in[b] = realloc(cs_in[b], wn[b]); memcpy(cs_in[b], wb[b], wn[b]);
    }
}
static void cs_exit(void) {
    if (!(in_par && team > 1 && cur_iso && cur >= 0)) return;
    if (cs_depth[cur] <= 0 || --cs_depth[cur] > 0) return;
    for (int b = 0; b < nwb; b++) {
        if (!cs_in[b]) continue;
        for (size_t i = 0; i < wn[b]; i++) {
            if (wb[b][i] != cs_in[b][i]) {
                if (!crit[b]) { crit[b] = malloc(wn[b]); memcpy(crit[b], snap[b], wn[b]); }
                crit[b][i] = wb[b][i];
                if (!cmask[cur][b]) cmask[cur][b] = calloc(wn[b], 1);
                cmask[cur][b][i] = 1;
            } else wb[b][i] = cs_pre[b][i];      /* not written in the section: back to this thread's own view */
        }
    }
}

void GOMP_parallel(void (*fn)(void *), void *data, unsigned nt, unsigned flags) {
    (void)flags;
    if (in_par) { fn(data); return; }      /* nested: serialised, as libgomp does by default */
    run_team(fn, data, nt);
}
void GOMP_barrier(void) {
    if (!in_par || team == 1) return;
    state[cur] = 1;
    swapcontext(&tctx[cur], &sched_ctx);
}
int omp_get_num_threads(void) { return in_par ? team : 1; }
int omp_get_thread_num(void) { return in_par ? cur : 0; }
int omp_get_max_threads(void) { return cfg_T; }
void omp_set_num_threads(int n) { if (n >= 1) cfg_T = n > MAXT ? MAXT : n; }
int omp_in_parallel(void) { return in_par; }
int omp_get_num_procs(void) { return cfg_T; }
void omp_set_dynamic(int d) { (void)d; }
int omp_get_dynamic(void) { return 0; }
void omp_set_nested(int d) { (void)d; }
int omp_get_nested(void) { return 0; }

double omp_get_wtime(void) { static double t = 0; t += 1e-3; return t; }   /* simulated clock */
double omp_get_wtick(void) { return 1e-3; }
int omp_get_thread_limit(void) { return MAXT; }
int omp_get_level(void) { return in_par ? 1 : 0; }
int omp_get_active_level(void) { return in_par && team > 1 ? 1 : 0; }
bool GOMP_single_start(void) { static long last_region = -1; if (!in_par || team == 1) return true;
    if (last_region != g_regions) { last_region = g_regions; return true; } return false; }

/* Synchronisation constructs: snapshot isolation would be unsound for a region
 * that relies on them, so they are recorded; the harness re-runs the call with
 * isolation off when g_sync_seen is set and says so in the evidence file. */
void GOMP_atomic_start(void) { cs_enter(); }
void GOMP_atomic_end(void) { cs_exit(); }
void GOMP_critical_start(void) { cs_enter(); }
void GOMP_critical_end(void) { cs_exit(); }
void GOMP_critical_name_start(void **p) { (void)p; cs_enter(); }
void GOMP_critical_name_end(void **p) { (void)p; cs_exit(); }
typedef struct { int dummy; } omp_lock_t_;
void omp_init_lock(void *l) { (void)l; }
void omp_destroy_lock(void *l) { (void)l; }
void omp_set_lock(void *l) { (void)l; cs_enter(); }
void omp_unset_lock(void *l) { (void)l; cs_exit(); }
/* Cython's `with gil:` inside a parallel region is a critical section as well: the kernels are linked with
 * --wrap=PyGILState_Ensure / --wrap=PyGILState_Release, so both come through here (outside a team they are only
 * forwarded).  The acquisitions Cython makes for its own housekeeping at the start and end of a region write nothing
 * and are therefore harmless. */
extern int PyGILState_Ensure(void);
extern void PyGILState_Release(int);
int __wrap_PyGILState_Ensure(void) { int st = PyGILState_Ensure(); if (in_par && team > 1) cs_enter(); return st; }
void __wrap_PyGILState_Release(int st) { if (in_par && team > 1) cs_exit(); PyGILState_Release(st); }
/* Cython opens every thread's part of a region with Ensure + Py_BEGIN_ALLOW_THREADS and closes it with
 * Py_END_ALLOW_THREADS + Release: the GIL is held only between Ensure and SaveThread, and between RestoreThread and
 * Release - the body in between runs without it and is no critical section. */
extern void *PyEval_SaveThread(void);
extern void PyEval_RestoreThread(void *);
void *__wrap_PyEval_SaveThread(void) { if (in_par && team > 1) cs_exit(); return PyEval_SaveThread(); }
void __wrap_PyEval_RestoreThread(void *ts) { PyEval_RestoreThread(ts); if (in_par && team > 1) cs_enter(); }

/* Work-sharing loops with dynamic / guided / runtime schedules: chunks are
 * handed out to whoever asks, and who asks next is the scheduler's decision
 * (each request is a yield point). */
#define DYN_YIELD_CAP 256
static void yield_here(void) {
    if (!in_par || team == 1) return;
    /* Every chunk request is a point where another thread may get the next chunk.  The number of such
     * hand-overs per region is capped: beyond the cap the requesting thread simply keeps taking chunks
     * (a legal schedule), so that a long loop with a small chunk size costs O(cap) context switches and
     * snapshot copies, not O(iterations). */
    if (++dl_yields > DYN_YIELD_CAP) return;
    /* stay runnable; give the scheduler a chance to pick someone else */
    swapcontext(&tctx[cur], &sched_ctx);
}
static bool dl_take(dl_inst_t *q, long *istart, long *iend) {
    long incr = q->incr;
    long left = incr > 0 ? (q->end - q->next + incr - 1) / incr : (q->next - q->end - incr - 1) / (-incr);
    if (left <= 0) return false;
    long n = left < q->chunk ? left : q->chunk;
    *istart = q->next; *iend = q->next + n * incr; q->next = *iend; g_dyn_chunks++;
    return true;
}
static bool dl_start(long start, long end, long incr, long chunk, long *istart, long *iend) {
    int k = dl_slot();
    long id = ws_seq[k]++;
    dl_inst_t *q = &dl_tab[id % DL_RING];
    if (k == MAXT || q->id != id) {          /* first of the team to get here (or no team at all): open the instance */
        q->id = id; q->next = start; q->end = end; q->incr = incr; q->chunk = chunk > 0 ? chunk : 1;
    }
    dl_cur[k] = q;
    yield_here();
    return dl_take(q, istart, iend);
}
static bool dl_next_chunk(long *istart, long *iend) {
    int k = dl_slot();
    yield_here();
    dl_inst_t *q = dl_cur[k];
    if (!q) return false;
    return dl_take(q, istart, iend);
}
#define LOOP_START(name) \
    bool name(long s, long e, long i, long c, long *a, long *b) { return dl_start(s, e, i, c, a, b); }
#define LOOP_NEXT(name) \
    bool name(long *a, long *b) { return dl_next_chunk(a, b); }
LOOP_START(GOMP_loop_dynamic_start)
LOOP_START(GOMP_loop_guided_start)
LOOP_START(GOMP_loop_nonmonotonic_dynamic_start)
LOOP_START(GOMP_loop_nonmonotonic_guided_start)
LOOP_NEXT(GOMP_loop_dynamic_next)
LOOP_NEXT(GOMP_loop_guided_next)
LOOP_NEXT(GOMP_loop_nonmonotonic_dynamic_next)
LOOP_NEXT(GOMP_loop_nonmonotonic_guided_next)
LOOP_NEXT(GOMP_loop_runtime_next)
LOOP_NEXT(GOMP_loop_maybe_nonmonotonic_runtime_next)
LOOP_NEXT(GOMP_loop_nonmonotonic_runtime_next)
bool GOMP_loop_runtime_start(long s, long e, long i, long *a, long *b) { return dl_start(s, e, i, 1, a, b); }
bool GOMP_loop_maybe_nonmonotonic_runtime_start(long s, long e, long i, long *a, long *b) { return dl_start(s, e, i, 1, a, b); }
bool GOMP_loop_nonmonotonic_runtime_start(long s, long e, long i, long *a, long *b) { return dl_start(s, e, i, 1, a, b); }
/* unsigned long long loop variables: same chunk dispenser (bounds used here are far below 2^63) */
typedef unsigned long long gull;
#define ULL_START(name) \
    bool name(bool up, gull s, gull e, gull i, gull c, gull *a, gull *b) { long x, y; (void)up; \
        bool r = dl_start((long)s, (long)e, (long)i, (long)c, &x, &y); *a = (gull)x; *b = (gull)y; return r; }
#define ULL_NEXT(name) \
    bool name(gull *a, gull *b) { long x, y; bool r = dl_next_chunk(&x, &y); *a = (gull)x; *b = (gull)y; return r; }
ULL_START(GOMP_loop_ull_dynamic_start)
ULL_START(GOMP_loop_ull_guided_start)
ULL_START(GOMP_loop_ull_nonmonotonic_dynamic_start)
ULL_START(GOMP_loop_ull_nonmonotonic_guided_start)
ULL_NEXT(GOMP_loop_ull_dynamic_next)
ULL_NEXT(GOMP_loop_ull_guided_next)
ULL_NEXT(GOMP_loop_ull_nonmonotonic_dynamic_next)
ULL_NEXT(GOMP_loop_ull_nonmonotonic_guided_next)
ULL_NEXT(GOMP_loop_ull_runtime_next)
ULL_NEXT(GOMP_loop_ull_maybe_nonmonotonic_runtime_next)
bool GOMP_loop_ull_runtime_start(bool up, gull s, gull e, gull i, gull *a, gull *b) { long x, y; (void)up;
    bool r = dl_start((long)s, (long)e, (long)i, 1, &x, &y); *a = (gull)x; *b = (gull)y; return r; }
bool GOMP_loop_ull_maybe_nonmonotonic_runtime_start(bool up, gull s, gull e, gull i, gull *a, gull *b) { long x, y; (void)up;
    bool r = dl_start((long)s, (long)e, (long)i, 1, &x, &y); *a = (gull)x; *b = (gull)y; return r; }

void GOMP_loop_end(void) {
    dl_cur[dl_slot()] = NULL;
    if (in_par && team > 1) GOMP_barrier();
}
void GOMP_loop_end_nowait(void) { dl_cur[dl_slot()] = NULL; }
bool GOMP_loop_end_cancel(void) { GOMP_loop_end(); return false; }

static void par_loop(void (*fn)(void *), void *data, unsigned nt, long s, long e, long i, long c) {
    if (in_par) { fn(data); return; }
    /* the outlined body of a combined construct only calls *_next: arm the loop here */
    dl_tab[0].id = 0; dl_tab[0].next = s; dl_tab[0].end = e; dl_tab[0].incr = i; dl_tab[0].chunk = c > 0 ? c : 1;
    dl_prearmed = 1;
    run_team(fn, data, nt);
}
void GOMP_parallel_loop_dynamic(void (*fn)(void *), void *d, unsigned nt, long s, long e, long i, long c, unsigned f) { (void)f; par_loop(fn, d, nt, s, e, i, c); }
void GOMP_parallel_loop_guided(void (*fn)(void *), void *d, unsigned nt, long s, long e, long i, long c, unsigned f) { (void)f; par_loop(fn, d, nt, s, e, i, c); }
void GOMP_parallel_loop_nonmonotonic_dynamic(void (*fn)(void *), void *d, unsigned nt, long s, long e, long i, long c, unsigned f) { (void)f; par_loop(fn, d, nt, s, e, i, c); }
void GOMP_parallel_loop_nonmonotonic_guided(void (*fn)(void *), void *d, unsigned nt, long s, long e, long i, long c, unsigned f) { (void)f; par_loop(fn, d, nt, s, e, i, c); }
void GOMP_parallel_loop_runtime(void (*fn)(void *), void *d, unsigned nt, long s, long e, long i, unsigned f) { (void)f; par_loop(fn, d, nt, s, e, i, 1); }
void GOMP_parallel_loop_maybe_nonmonotonic_runtime(void (*fn)(void *), void *d, unsigned nt, long s, long e, long i, unsigned f) { (void)f; par_loop(fn, d, nt, s, e, i, 1); }
void GOMP_parallel_loop_nonmonotonic_runtime(void (*fn)(void *), void *d, unsigned nt, long s, long e, long i, unsigned f) { (void)f; par_loop(fn, d, nt, s, e, i, 1); }
