/* libsimrt — deterministic runtime pieces for the enspara simulator.
 *
 *  (1) simalloc: a tracking allocator (used as NumPy's data-memory handler)
 *      with seeded poison fill, 64-byte red zones and a live-buffer list.
 *  (2) simgomp: the GNU OpenMP entry points the compiled enspara kernels
 *      reference, implemented as a team of virtual threads (ucontext
 *      coroutines on the calling OS thread) whose order is taken from a
 *      decision block supplied by the harness, and whose memory effects are
 *      (optionally) snapshot-isolated and merged last-writer-wins at barriers.
 *
 *  Nothing here reads a clock or an unseeded random source.
 */
#define _GNU_SOURCE
#include <ucontext.h>
#include <stdlib.h>
#include <stdio.h>
#include <string.h>
#include <stdint.h>
#include <stdbool.h>
#include <pthread.h>

/* ------------------------------------------------------------------ */
/* simalloc                                                            */
/* ------------------------------------------------------------------ */
#define RZ 64
#define MAGIC 0xC0FFEE1234ABCDEFULL
typedef struct hdr {
    size_t size;
    uint64_t magic;
    struct hdr *prev, *next;
    uint64_t serial;
} hdr_t;                       /* 40 bytes, lives at the start of the front red zone */

static pthread_mutex_t mu = PTHREAD_MUTEX_INITIALIZER;
static hdr_t *live_head = NULL;
static uint64_t serial_ctr = 0;
static uint64_t poison_state = 0x9E3779B97F4A7C15ULL;
static int poison_mode = 0;
static long st_malloc = 0, st_calloc = 0, st_realloc = 0, st_free = 0,
            st_rz_bad = 0, st_live = 0, st_live_bytes = 0, st_poisoned_bytes = 0;

static inline uint64_t sm64(uint64_t *s) {
    uint64_t z = (*s += 0x9E3779B97F4A7C15ULL);
    z = (z ^ (z >> 30)) * 0xBF58476D1CE4E5B9ULL;
    z = (z ^ (z >> 27)) * 0x94D049BB133111EBULL;
    return z ^ (z >> 31);
}

/* poison modes: 0 zeros (the "lucky" heap), 1 quiet-NaN words, 2 all ones,
 * 3 seeded random bytes, 4 small integers (1..3 as int64/int32/float-denormal),
 * 5 the double 1.0 / 2.0 (plausible floats), 6 large positive doubles (1e300) */
static void fill(unsigned char *p, size_t n) {
    size_t i;
    uint64_t q;
    st_poisoned_bytes += (long)n;
    switch (poison_mode) {
    case 0: memset(p, 0, n); return;
    case 1: q = 0x7FF8DEADBEEF0001ULL; break;
    case 2: memset(p, 0xFF, n); return;
    case 3:
        for (i = 0; i + 8 <= n; i += 8) { q = sm64(&poison_state); memcpy(p + i, &q, 8); }
        for (; i < n; i++) p[i] = (unsigned char)sm64(&poison_state);
        return;
    case 4:
        for (i = 0; i + 8 <= n; i += 8) { q = 1 + (sm64(&poison_state) % 3); memcpy(p + i, &q, 8); }
        for (; i < n; i++) p[i] = 1;
        return;
    case 5:
        for (i = 0; i + 8 <= n; i += 8) {
            q = (sm64(&poison_state) & 1) ? 0x3FF0000000000000ULL : 0x4000000000000000ULL;
            memcpy(p + i, &q, 8);
        }
        for (; i < n; i++) p[i] = 0x3F;
        return;
    case 6: q = 0x7E37E43C8800759CULL; break;   /* 1e300 */
    default: memset(p, 0, n); return;
    }
    for (i = 0; i + 8 <= n; i += 8) memcpy(p + i, &q, 8);
    for (; i < n; i++) p[i] = 0x7F;
}

static void *wrap(unsigned char *raw, size_t size) {
    hdr_t *h = (hdr_t *)raw;
    memset(raw, 0xA5, RZ);
    h->size = size; h->magic = MAGIC; h->serial = ++serial_ctr;
    h->prev = NULL; h->next = live_head;
    if (live_head) live_head->prev = h;
    live_head = h;
    memset(raw + RZ + size, 0x5A, RZ);
    st_live++; st_live_bytes += (long)size;
    return raw + RZ;
}
static void unlink_hdr(hdr_t *h) {
    if (h->prev) h->prev->next = h->next; else live_head = h->next;
    if (h->next) h->next->prev = h->prev;
    st_live--; st_live_bytes -= (long)h->size;
}
/* 0 ok, 1 red zone damaged, -1 not ours */
static int check_hdr(hdr_t *h) {
    unsigned char *raw = (unsigned char *)h;
    if (h->magic != MAGIC) return -1;
    for (size_t i = sizeof(hdr_t); i < RZ; i++) if (raw[i] != 0xA5) return 1;
    for (size_t i = 0; i < RZ; i++) if (raw[RZ + h->size + i] != 0x5A) return 1;
    return 0;
}

void *sim_malloc(void *ctx, size_t size) {
    (void)ctx;
    unsigned char *raw = malloc(size + 2 * RZ);
    if (!raw) return NULL;
    pthread_mutex_lock(&mu);
    st_malloc++;
    void *u = wrap(raw, size);
    fill(u, size);
    pthread_mutex_unlock(&mu);
    return u;
}
void *sim_calloc(void *ctx, size_t n, size_t e) {
    (void)ctx;
    size_t size = n * e;
    unsigned char *raw = malloc(size + 2 * RZ);
    if (!raw) return NULL;
    pthread_mutex_lock(&mu);
    st_calloc++;
    void *u = wrap(raw, size);
    memset(u, 0, size);
    pthread_mutex_unlock(&mu);
    return u;
}
void sim_free(void *ctx, void *p, size_t size) {
    (void)ctx; (void)size;
    if (!p) return;
    hdr_t *h = (hdr_t *)((unsigned char *)p - RZ);
    pthread_mutex_lock(&mu);
    st_free++;
    int c = check_hdr(h);
    if (c < 0) { pthread_mutex_unlock(&mu); free(p); return; }  /* not ours: handler changed mid-life */
    if (c > 0) st_rz_bad++;
    unlink_hdr(h);
    h->magic = 0;
    memset(p, 0xDD, h->size);
    pthread_mutex_unlock(&mu);
    free(h);
}
void *sim_realloc(void *ctx, void *p, size_t size) {
    if (!p) return sim_malloc(ctx, size);
    hdr_t *h = (hdr_t *)((unsigned char *)p - RZ);
    if (h->magic != MAGIC) return realloc(p, size);
    unsigned char *nr = malloc(size + 2 * RZ);
    if (!nr) return NULL;
    pthread_mutex_lock(&mu);
    st_realloc++;
    if (check_hdr(h) > 0) st_rz_bad++;
    size_t old = h->size;
    unlink_hdr(h);
    void *u = wrap(nr, size);
    size_t k = old < size ? old : size;
    memcpy(u, p, k);
    if (size > k) fill((unsigned char *)u + k, size - k);
    h->magic = 0;
    pthread_mutex_unlock(&mu);
    free(h);
    return u;
}

void sim_alloc_config(int mode, unsigned long long seed) { poison_mode = mode; poison_state = seed; }
/* walk all live buffers, return number with damaged red zones (plus those seen on free since last reset) */
long sim_check_all(void) {
    long bad = 0;
    pthread_mutex_lock(&mu);
    for (hdr_t *h = live_head; h; h = h->next) if (check_hdr(h) != 0) bad++;
    bad += st_rz_bad;
    pthread_mutex_unlock(&mu);
    return bad;
}
void sim_alloc_reset_bad(void) { st_rz_bad = 0; }
void sim_alloc_stats(long *o) {
    o[0] = st_malloc; o[1] = st_calloc; o[2] = st_realloc; o[3] = st_free;
    o[4] = st_rz_bad; o[5] = st_live; o[6] = st_live_bytes; o[7] = st_poisoned_bytes;
}
uint64_t sim_alloc_serial(void) { return serial_ctr; }
/* is p inside a live tracked buffer? returns size or -1 */
long sim_alloc_owns(void *p) {
    long r = -1;
    pthread_mutex_lock(&mu);
    for (hdr_t *h = live_head; h; h = h->next) {
        unsigned char *u = (unsigned char *)h + RZ;
        if ((unsigned char *)p >= u && (unsigned char *)p < u + h->size + (h->size == 0)) { r = (long)h->size; break; }
    }
    pthread_mutex_unlock(&mu);
    return r;
}

/* ------------------------------------------------------------------ */
/* simgomp                                                             */
/* ------------------------------------------------------------------ */
#define MAXT 128
#define STK (512 * 1024)
#define MAXW 4096
#define WATCH_CAP (8u << 20)      /* buffers larger than this are not isolated */

static int cfg_T = 1, cfg_iso = 0;
static const uint32_t *dec = NULL; static long dec_n = 0, dec_i = 0;
static int in_par = 0, cur = -1, team = 1;
static ucontext_t sched_ctx, tctx[MAXT];
static char *stk[MAXT];
static int state[MAXT];           /* 0 runnable, 1 at barrier, 2 done */
static void (*g_fn)(void *); static void *g_data;
static long g_regions = 0, g_switch = 0, g_barriers = 0, g_conflict = 0, g_diff = 0,
            g_sync_seen = 0, g_iso_regions = 0, g_watched_bytes = 0, g_dec_used = 0,
            g_maxteam = 0, g_dyn_chunks = 0, g_budget_hit = 0;
static long cfg_switch_budget = 2000000;
static long dl_yields;

/* watched buffers for the current region */
static unsigned char *wb[MAXW]; static size_t wn[MAXW]; static int nwb = 0;
static unsigned char *snap[MAXW];
static unsigned char *priv[MAXT][MAXW];
static void *extra_p[64]; static size_t extra_n[64]; static int n_extra = 0;

void sim_gomp_config(int T, int iso) { cfg_T = T < 1 ? 1 : (T > MAXT ? MAXT : T); cfg_iso = iso; }
void sim_gomp_decisions(const uint32_t *d, long n) { dec = d; dec_n = n; dec_i = 0; }
long sim_gomp_decisions_used(void) { return dec_i; }
void sim_gomp_watch(void *p, size_t n) { if (n_extra < 64) { extra_p[n_extra] = p; extra_n[n_extra] = n; n_extra++; } }
void sim_gomp_unwatch_all(void) { n_extra = 0; }
void sim_gomp_set_budget(long b) { cfg_switch_budget = b; }
void sim_gomp_stats(long *o) {
    o[0] = g_regions; o[1] = g_switch; o[2] = g_barriers; o[3] = g_conflict; o[4] = g_diff;
    o[5] = g_sync_seen; o[6] = g_iso_regions; o[7] = g_watched_bytes; o[8] = g_dec_used;
    o[9] = g_maxteam; o[10] = g_dyn_chunks; o[11] = g_budget_hit;
}
void sim_gomp_reset_stats(void) {
    g_regions = g_switch = g_barriers = g_conflict = g_diff = g_sync_seen = g_iso_regions = 0;
    g_watched_bytes = g_dec_used = g_maxteam = g_dyn_chunks = g_budget_hit = 0;
}

static uint32_t decide(uint32_t n) {
    if (n <= 1) return 0;
    if (dec && dec_i < dec_n) { g_dec_used++; return dec[dec_i++] % n; }
    return 0;
}

static void collect_watch(void) {
    nwb = 0;
    pthread_mutex_lock(&mu);
    for (hdr_t *h = live_head; h && nwb < MAXW - 64; h = h->next) {
        if (h->size == 0 || h->size > WATCH_CAP) continue;
        wb[nwb] = (unsigned char *)h + RZ; wn[nwb] = h->size; nwb++;
    }
    pthread_mutex_unlock(&mu);
    for (int i = 0; i < n_extra; i++) { wb[nwb] = extra_p[i]; wn[nwb] = extra_n[i]; nwb++; }
    for (int b = 0; b < nwb; b++) g_watched_bytes += (long)wn[b];
}
static void take_snapshot(void) {
    for (int b = 0; b < nwb; b++) { snap[b] = realloc(snap[b], wn[b]); memcpy(snap[b], wb[b], wn[b]); }
}
static void load_private(int k) {
    for (int b = 0; b < nwb; b++) memcpy(wb[b], priv[k][b] ? priv[k][b] : snap[b], wn[b]);
}
static void save_private(int k) {
    for (int b = 0; b < nwb; b++) {
        if (!priv[k][b]) {
            if (memcmp(wb[b], snap[b], wn[b]) == 0) continue;   /* untouched: keep sharing the snapshot */
            priv[k][b] = malloc(wn[b]);
        }
        memcpy(priv[k][b], wb[b], wn[b]);
    }
}
static void merge(int T) {
    int order[MAXT];
    for (int k = 0; k < T; k++) order[k] = k;
    for (int k = T - 1; k > 0; k--) { int j = (int)decide((uint32_t)k + 1); int t = order[k]; order[k] = order[j]; order[j] = t; }
    for (int b = 0; b < nwb; b++) {
        unsigned char *out = NULL, *wr = NULL;
        for (int oi = 0; oi < T; oi++) {
            int k = order[oi];
            unsigned char *p = priv[k][b];
            if (!p) continue;
            if (!out) { out = malloc(wn[b]); wr = calloc(wn[b], 1); memcpy(out, snap[b], wn[b]); }
            for (size_t i = 0; i < wn[b]; i++) if (p[i] != snap[b][i]) {
                if (wr[i] && out[i] != p[i]) g_conflict++;
                wr[i] = 1; out[i] = p[i]; g_diff++;
            }
        }
        if (out) { memcpy(wb[b], out, wn[b]); free(out); free(wr); }
        else memcpy(wb[b], snap[b], wn[b]);
    }
    for (int k = 0; k < T; k++) for (int b = 0; b < nwb; b++) { free(priv[k][b]); priv[k][b] = NULL; }
}

static void tramp(void) {
    g_fn(g_data);
    state[cur] = 2;
    swapcontext(&tctx[cur], &sched_ctx);
}

/* dynamic-loop work sharing state (one loop at a time per region) */
static long dl_next, dl_end, dl_incr, dl_chunk; static int dl_active = 0, dl_refs = 0, dl_prearmed = 0;

static void run_team(void (*fn)(void *), void *data, unsigned nt) {
    int T = nt ? (int)nt : cfg_T;
    if (T > MAXT) T = MAXT;
    if (T < 1) T = 1;
    g_regions++;
    dl_yields = 0;
    if (T > g_maxteam) g_maxteam = T;
    if (T == 1 && !cfg_iso) {           /* fast path: one thread, shared memory */
        in_par = 1; team = 1; cur = 0; if (!dl_prearmed) dl_active = 0; dl_prearmed = 0;
        fn(data);
        in_par = 0; cur = -1; team = 1;
        return;
    }
    team = T; in_par = 1; g_fn = fn; g_data = data; if (!dl_prearmed) dl_active = 0; dl_prearmed = 0;
    int iso = cfg_iso;
    if (iso) { collect_watch(); take_snapshot(); g_iso_regions++; }
    for (int k = 0; k < T; k++) {
        if (!stk[k]) stk[k] = malloc(STK);
        getcontext(&tctx[k]);
        tctx[k].uc_stack.ss_sp = stk[k]; tctx[k].uc_stack.ss_size = STK; tctx[k].uc_link = &sched_ctx;
        makecontext(&tctx[k], tramp, 0);
        state[k] = 0;
    }
    long switches = 0;
    for (;;) {
        int run[MAXT], nr = 0, nb = 0, nd = 0;
        for (int k = 0; k < T; k++) { if (state[k] == 0) run[nr++] = k; else if (state[k] == 1) nb++; else nd++; }
        if (nr == 0) {
            if (iso) { merge(T); if (nd < T) take_snapshot(); }
            if (nd == T) break;
            if (nb > 0 && nd > 0) { fprintf(stderr, "simgomp: barrier deadlock\n"); abort(); }
            for (int k = 0; k < T; k++) if (state[k] == 1) state[k] = 0;
            g_barriers++;
            continue;
        }
        cur = run[decide((uint32_t)nr)];
        g_switch++;
        if (++switches > cfg_switch_budget) { g_budget_hit++; }
        if (iso) load_private(cur);
        swapcontext(&sched_ctx, &tctx[cur]);
        if (iso) save_private(cur);
    }
    in_par = 0; cur = -1; team = 1;
}

void GOMP_parallel(void (*fn)(void *), void *data, unsigned nt, unsigned flags) {
    (void)flags;
    if (in_par) { fn(data); return; }      /* nested: serialised, as libgomp does by default */
    run_team(fn, data, nt);
}
void GOMP_barrier(void) {
    if (!in_par || team == 1) return;
    state[cur] = 1;
    swapcontext(&tctx[cur], &sched_ctx);
}
int omp_get_num_threads(void) { return in_par ? team : 1; }
int omp_get_thread_num(void) { return in_par ? cur : 0; }
int omp_get_max_threads(void) { return cfg_T; }
void omp_set_num_threads(int n) { if (n >= 1) cfg_T = n > MAXT ? MAXT : n; }
int omp_in_parallel(void) { return in_par; }
int omp_get_num_procs(void) { return cfg_T; }
void omp_set_dynamic(int d) { (void)d; }
int omp_get_dynamic(void) { return 0; }
void omp_set_nested(int d) { (void)d; }
int omp_get_nested(void) { return 0; }

double omp_get_wtime(void) { static double t = 0; t += 1e-3; return t; }   /* simulated clock */
double omp_get_wtick(void) { return 1e-3; }
int omp_get_thread_limit(void) { return MAXT; }
int omp_get_level(void) { return in_par ? 1 : 0; }
int omp_get_active_level(void) { return in_par && team > 1 ? 1 : 0; }
bool GOMP_single_start(void) { static long last_region = -1; if (!in_par || team == 1) return true;
    if (last_region != g_regions) { last_region = g_regions; return true; } return false; }

/* Synchronisation constructs: snapshot isolation would be unsound for a region
 * that relies on them, so they are recorded; the harness re-runs the call with
 * isolation off when g_sync_seen is set and says so in the evidence file. */
void GOMP_atomic_start(void) { g_sync_seen++; }
void GOMP_atomic_end(void) {}
void GOMP_critical_start(void) { g_sync_seen++; }
void GOMP_critical_end(void) {}
void GOMP_critical_name_start(void **p) { (void)p; g_sync_seen++; }
void GOMP_critical_name_end(void **p) { (void)p; }
typedef struct { int dummy; } omp_lock_t_;
void omp_init_lock(void *l) { (void)l; g_sync_seen++; }
void omp_destroy_lock(void *l) { (void)l; }
void omp_set_lock(void *l) { (void)l; g_sync_seen++; }
void omp_unset_lock(void *l) { (void)l; }

/* Work-sharing loops with dynamic / guided / runtime schedules: chunks are
 * handed out to whoever asks, and who asks next is the scheduler's decision
 * (each request is a yield point). */
#define DYN_YIELD_CAP 256
static void yield_here(void) {
    if (!in_par || team == 1) return;
    /* Every chunk request is a point where another thread may get the next chunk.  The number of such
     * hand-overs per region is capped: beyond the cap the requesting thread simply keeps taking chunks
     * (a legal schedule), so that a long loop with a small chunk size costs O(cap) context switches and
     * snapshot copies, not O(iterations). */
    if (++dl_yields > DYN_YIELD_CAP) return;
    /* stay runnable; give the scheduler a chance to pick someone else */
    swapcontext(&tctx[cur], &sched_ctx);
}
static bool dl_start(long start, long end, long incr, long chunk, long *istart, long *iend) {
    if (!dl_active) { dl_next = start; dl_end = end; dl_incr = incr; dl_chunk = chunk > 0 ? chunk : 1; dl_active = 1; dl_refs = 0; }
    dl_refs++;
    yield_here();
    long left = incr > 0 ? (dl_end - dl_next + incr - 1) / incr : (dl_next - dl_end - incr - 1) / (-incr);
    if (left <= 0) return false;
    long n = left < dl_chunk ? left : dl_chunk;
    *istart = dl_next; *iend = dl_next + n * incr; dl_next = *iend; g_dyn_chunks++;
    return true;
}
static bool dl_next_chunk(long *istart, long *iend) {
    yield_here();
    long incr = dl_incr;
    long left = incr > 0 ? (dl_end - dl_next + incr - 1) / incr : (dl_next - dl_end - incr - 1) / (-incr);
    if (left <= 0) return false;
    long n = left < dl_chunk ? left : dl_chunk;
    *istart = dl_next; *iend = dl_next + n * incr; dl_next = *iend; g_dyn_chunks++;
    return true;
}
#define LOOP_START(name) \
    bool name(long s, long e, long i, long c, long *a, long *b) { return dl_start(s, e, i, c, a, b); }
#define LOOP_NEXT(name) \
    bool name(long *a, long *b) { return dl_next_chunk(a, b); }
LOOP_START(GOMP_loop_dynamic_start)
LOOP_START(GOMP_loop_guided_start)
LOOP_START(GOMP_loop_nonmonotonic_dynamic_start)
LOOP_START(GOMP_loop_nonmonotonic_guided_start)
LOOP_NEXT(GOMP_loop_dynamic_next)
LOOP_NEXT(GOMP_loop_guided_next)
LOOP_NEXT(GOMP_loop_nonmonotonic_dynamic_next)
LOOP_NEXT(GOMP_loop_nonmonotonic_guided_next)
LOOP_NEXT(GOMP_loop_runtime_next)
LOOP_NEXT(GOMP_loop_maybe_nonmonotonic_runtime_next)
LOOP_NEXT(GOMP_loop_nonmonotonic_runtime_next)
bool GOMP_loop_runtime_start(long s, long e, long i, long *a, long *b) { return dl_start(s, e, i, 1, a, b); }
bool GOMP_loop_maybe_nonmonotonic_runtime_start(long s, long e, long i, long *a, long *b) { return dl_start(s, e, i, 1, a, b); }
bool GOMP_loop_nonmonotonic_runtime_start(long s, long e, long i, long *a, long *b) { return dl_start(s, e, i, 1, a, b); }
/* unsigned long long loop variables: same chunk dispenser (bounds used here are far below 2^63) */
typedef unsigned long long gull;
#define ULL_START(name) \
    bool name(bool up, gull s, gull e, gull i, gull c, gull *a, gull *b) { long x, y; (void)up; \
        bool r = dl_start((long)s, (long)e, (long)i, (long)c, &x, &y); *a = (gull)x; *b = (gull)y; return r; }
#define ULL_NEXT(name) \
    bool name(gull *a, gull *b) { long x, y; bool r = dl_next_chunk(&x, &y); *a = (gull)x; *b = (gull)y; return r; }
ULL_START(GOMP_loop_ull_dynamic_start)
ULL_START(GOMP_loop_ull_guided_start)
ULL_START(GOMP_loop_ull_nonmonotonic_dynamic_start)
ULL_START(GOMP_loop_ull_nonmonotonic_guided_start)
ULL_NEXT(GOMP_loop_ull_dynamic_next)
ULL_NEXT(GOMP_loop_ull_guided_next)
ULL_NEXT(GOMP_loop_ull_nonmonotonic_dynamic_next)
ULL_NEXT(GOMP_loop_ull_nonmonotonic_guided_next)
ULL_NEXT(GOMP_loop_ull_runtime_next)
ULL_NEXT(GOMP_loop_ull_maybe_nonmonotonic_runtime_next)
bool GOMP_loop_ull_runtime_start(bool up, gull s, gull e, gull i, gull *a, gull *b) { long x, y; (void)up;
    bool r = dl_start((long)s, (long)e, (long)i, 1, &x, &y); *a = (gull)x; *b = (gull)y; return r; }
bool GOMP_loop_ull_maybe_nonmonotonic_runtime_start(bool up, gull s, gull e, gull i, gull *a, gull *b) { long x, y; (void)up;
    bool r = dl_start((long)s, (long)e, (long)i, 1, &x, &y); *a = (gull)x; *b = (gull)y; return r; }

void GOMP_loop_end(void) {
    if (in_par && team > 1) { if (--dl_refs <= 0) dl_active = 0; GOMP_barrier(); } else dl_active = 0;
}
void GOMP_loop_end_nowait(void) { if (--dl_refs <= 0) dl_active = 0; }
bool GOMP_loop_end_cancel(void) { GOMP_loop_end(); return false; }

static void par_loop(void (*fn)(void *), void *data, unsigned nt, long s, long e, long i, long c) {
    if (in_par) { fn(data); return; }
    /* the outlined body of a combined construct only calls *_next: arm the loop here */
    dl_next = s; dl_end = e; dl_incr = i; dl_chunk = c > 0 ? c : 1;
    dl_active = 1; dl_refs = nt ? (int)nt : cfg_T; dl_prearmed = 1;
    run_team(fn, data, nt);
    dl_active = 0;
}
void GOMP_parallel_loop_dynamic(void (*fn)(void *), void *d, unsigned nt, long s, long e, long i, long c, unsigned f) { (void)f; par_loop(fn, d, nt, s, e, i, c); }
void GOMP_parallel_loop_guided(void (*fn)(void *), void *d, unsigned nt, long s, long e, long i, long c, unsigned f) { (void)f; par_loop(fn, d, nt, s, e, i, c); }
void GOMP_parallel_loop_nonmonotonic_dynamic(void (*fn)(void *), void *d, unsigned nt, long s, long e, long i, long c, unsigned f) { (void)f; par_loop(fn, d, nt, s, e, i, c); }
void GOMP_parallel_loop_nonmonotonic_guided(void (*fn)(void *), void *d, unsigned nt, long s, long e, long i, long c, unsigned f) { (void)f; par_loop(fn, d, nt, s, e, i, c); }
void GOMP_parallel_loop_runtime(void (*fn)(void *), void *d, unsigned nt, long s, long e, long i, unsigned f) { (void)f; par_loop(fn, d, nt, s, e, i, 1); }
void GOMP_parallel_loop_maybe_nonmonotonic_runtime(void (*fn)(void *), void *d, unsigned nt, long s, long e, long i, unsigned f) { (void)f; par_loop(fn, d, nt, s, e, i, 1); }
void GOMP_parallel_loop_nonmonotonic_runtime(void (*fn)(void *), void *d, unsigned nt, long s, long e, long i, unsigned f) { (void)f; par_loop(fn, d, nt, s, e, i, 1); }
