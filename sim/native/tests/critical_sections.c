#include <stdio.h>
#include <stdlib.h>
void sim_gomp_config(int T, int iso); void sim_gomp_watch(void *p, size_t n); void sim_gomp_stats(long *o); void sim_gomp_reset_stats(void);
int main(void) {
    static int acc[4]; long st[16];
    sim_gomp_watch(acc, sizeof acc);
    sim_gomp_config(3, 1);
    #pragma omp parallel
    {
        int mine = 0, t;
        #pragma omp for nowait schedule(static)
        for (t = 0; t < 10; t++) mine += t;
        #pragma omp critical
        { acc[0] += mine; acc[1] += 1; }
    }
    sim_gomp_stats(st);
    printf("critical: acc0=%d (want 45) acc1=%d (want 3) conflicts=%ld\n", acc[0], acc[1], st[3]);
    sim_gomp_reset_stats(); acc[0] = acc[1] = 0;
    #pragma omp parallel
    {
        int mine = 0, t;
        #pragma omp for nowait schedule(static)
        for (t = 0; t < 10; t++) mine += t;
        acc[0] += mine; acc[1] += 1;
    }
    sim_gomp_stats(st);
    printf("racy: acc0=%d acc1=%d conflicts=%ld (want > 0)\n", acc[0], acc[1], st[3]);
    return 0;
}
