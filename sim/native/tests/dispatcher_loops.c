#include <stdio.h>
#include <stdlib.h>
void sim_gomp_config(int T, int iso);
int main(void) {
    int hits[8] = {0};
    sim_gomp_config(3, 0);
    #pragma omp parallel
    {
        int t;
        #pragma omp for nowait schedule(guided)
        for (t = 0; t < 1; t++) { hits[t] += 1; }
        #pragma omp for schedule(dynamic, 2)
        for (t = 0; t < 7; t++) { hits[1 + t] += 1; }
    }
    #pragma omp parallel for schedule(dynamic)
    for (int t = 0; t < 5; t++) hits[t] += 10;
    for (int i = 0; i < 8; i++) printf("%d ", hits[i]);
    printf("\n(want 11 11 11 11 11 1 1 1)\n");
    return 0;
}
