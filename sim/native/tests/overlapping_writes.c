#include <stdio.h>
#include <stdlib.h>
void sim_gomp_config(int T, int iso); void sim_gomp_watch(void *p, size_t n); void sim_gomp_stats(long *o); void sim_gomp_reset_stats(void);
int main(void) {
    static double out[7]; long st[16];
    sim_gomp_watch(out, sizeof out);
    sim_gomp_config(2, 1);
    #pragma omp parallel for schedule(static, 1)
    for (int c = 0; c < 2; c++) {
        int lo = c * 7 / 2, hi = ((c + 1) * 7 + 1) / 2;
        for (int i = lo; i < hi; i++) out[i] = 0;
        for (int i = lo; i < hi; i++) out[i] += i + 1.5;
    }
    sim_gomp_stats(st);
    printf("conflicts=%ld overlap=%ld (want overlap > 0: the bytes of out[3] that differ from their old value)\n", st[3], st[12]);
    return 0;
}
