"""C14 family: the command-line front end `apps.cluster.main` end to end on N simulated ranks.

Feature files are written to a per-run scratch directory; every rank runs main(); afterwards the files on
disk must decode to the serial clustering (tie-free k-centers) or to a self-consistent clustering (k-hybrid),
and only rank 0 may have written anything."""
import builtins
import contextlib
import os

import numpy as np

from ..core.run import require
from ..engines import simmpi
from ..engines.simmpi import SimViolation
from ..models import cluster as M
from . import clcommon as C


@contextlib.contextmanager
def write_guard(ctx, scratch):
    """records which simulated rank opens a file under the scratch directory for writing"""
    import tables
    from enspara.ra import ra as ramod
    writers = []
    real_open = builtins.open
    real_tables_open = ramod.tables.open_file

    def note(path, mode):
        try:
            p = os.fspath(path)
        except TypeError:
            return
        if isinstance(p, bytes):
            p = p.decode(errors='replace')
        if any(c in mode for c in 'wax+') and os.path.abspath(p).startswith(scratch):
            writers.append((simmpi.COMM_WORLD.Get_rank(), os.path.basename(p)))

    def g_open(file, mode='r', *a, **k):
        note(file, mode)
        return real_open(file, mode, *a, **k)

    def g_tables_open(filename, mode='r', *a, **k):
        note(filename, mode)
        return real_tables_open(filename, mode, *a, **k)
    builtins.open = g_open
    ramod.tables.open_file = g_tables_open
    try:
        yield writers
    finally:
        builtins.open = real_open
        ramod.tables.open_file = real_tables_open


def app_scenario(ctx):
    t = ctx.tape
    e = C.E()
    from enspara.apps import cluster as capp
    ra = e['ra']
    max_ranks = 6
    P = C.Problem(ctx, max_ranks=max_ranks, max_frames=40, dtype=t.choice(('float64', 'float32')),
                  metric=t.choice(('euclidean', 'manhattan')))
    k, cutoff = P.draw_stop(ctx)
    algo = t.choice(('kcenters', 'kcenters', 'khybrid'))
    n_iters = t.irange(0, 2) if algo == 'khybrid' else None
    fmt = 'npy' if (len(P.lengths) >= 2 and t.flag(2, 3)) else 'h5'
    poison = t.draw(7) if t.flag() else 0
    d = ctx.scratch()
    starts = np.concatenate([[0], np.cumsum(P.lengths)[:-1]]).astype(int)
    rows = [P.X[s:s + L] for s, L in zip(starts, P.lengths)]
    if fmt == 'npy':
        feats = []
        # files are listed explicitly on the command line, in trajectory order - which need not be the order of their names
        use_glob = t.flag(1, 4)          # the files will be named by ONE quoted pattern: names in trajectory order, one prefix
        names = t.perm(len(rows)) if (t.flag() and not use_glob) else list(range(len(rows)))
        if names != sorted(names):
            ctx.hit('app_files_not_in_name_order')
        for i, r in enumerate(rows):
            fn = os.path.join(d, 'run-%d.npy' % names[i]) if (t.flag() and not use_glob) else os.path.join(d, 'feat%02d.npy' % names[i])
            if fn in feats:
                fn = os.path.join(d, 'feat%02d.npy' % names[i])
            np.save(fn, r)
            feats.append(fn)
    else:
        fn = os.path.join(d, 'feat.h5')
        ra.save(fn, ra.RaggedArray(np.concatenate(rows), lengths=list(P.lengths)) if len(rows) > 1 else rows[0])
        feats = [fn]
        if len(rows) == 1 and P.N > 1:
            P.N = 1
            P.l2g = M.local_to_global(P.lengths, 1)
    out = dict(dist=os.path.join(d, 'out-dist.h5'), assig=os.path.join(d, 'out-assig.h5'),
               ctr=os.path.join(d, 'out-centers.npy'), inds=os.path.join(d, 'out-inds.npy'))
    feats_arg = feats
    if fmt == 'npy' and use_glob:
        # one quoted glob pattern instead of the list of files: the front end expands it itself (in sorted order)
        feats_arg = [os.path.join(d, 'feat*.npy')]
        ctx.hit('app_features_as_glob_pattern')
    argv = ['cluster', '--features'] + feats_arg + ['--algorithm', algo, '--cluster-distance', P.metric_name,
                                                '--distances', out['dist'], '--assignments', out['assig'],
                                                '--center-features', out['ctr'], '--center-indices', out['inds']]
    if k is not None:
        argv += ['--cluster-number', str(k)]
    if cutoff is not None:
        argv += ['--cluster-radius', repr(float(cutoff))]
    if n_iters is not None:
        argv += ['--cluster-iterations', str(n_iters)]
    sub = 1
    if fmt == 'npy' and len(feats) >= 2 and t.flag(1, 4):
        # every sub-th frame is clustered; centre indices are reported in the coordinates of the files on disk
        sub = t.irange(2, 3)
        argv += ['--subsample', str(sub), '--no-reassign']
        ctx.hit('app_subsample')
    elif t.flag(1, 4):
        argv += ['--no-reassign']          # documented to have no effect without subsampling
        ctx.hit('app_no_reassign_without_subsample')
    ctx.scenario.update(P.describe(), family='app', algo=algo, n_clusters=k, dist_cutoff=cutoff, n_iters=n_iters, features=fmt,
                        poison=poison, argv=[a if not a.startswith(d) else os.path.basename(a) for a in argv])
    ctx.fp('app', P.N, tuple(P.lengths), P.dtype, P.metric_name, algo, k, cutoff, n_iters, fmt, poison, P.X.tobytes())
    # serial reference: the library's own serial algorithm on the concatenated data
    kw = C.kc_kwargs(k, cutoff)
    if sub > 1:
        return app_subsampled(ctx, P, e, capp, argv, out, rows, starts, sub, k, cutoff, algo, poison, d)
    serial = ctx.sut(e['kcenters'].kcenters, P.X.copy(), P.metric_name, **kw)
    g, tie_free = M.greedy_run(P.X, P.model_metric, k, cutoff, tol=P.tie_tol(), cut_tol=P.cut_tol())
    old_mode = capp.mpi_mode
    capp.mpi_mode = P.N > 1
    np.random.seed(t.draw(2 ** 31 - 1))          # KHybrid without --seed draws from numpy's global state on rank 0
    try:
        with write_guard(ctx, d) as writers:
            with C.Poison(ctx, poison, seed=3):
                w = C.make_world(ctx, P.N, poison)
                rcs = w.run(lambda r: capp.main(list(argv)))
    finally:
        capp.mpi_mode = old_mode
    st = w.stats()
    ctx.steps += st['collectives'] + st['decisions']
    ctx.count('collectives', st['collectives'])
    ctx.count('sched_decisions', st['decisions'])
    ctx.fp(tuple(w.sched_trace))
    if st['decisions'] > 0 and P.N >= 2:
        ctx.nontrivial = True
    ctx.hit('app_end_to_end')
    require(all(rc == 0 for rc in rcs), 'app_failed', lambda: 'main() returned %s' % rcs)
    bad_writers = sorted({(r, f) for r, f in writers if r != 0})
    require(not bad_writers, 'non_root_rank_wrote_output', lambda: 'ranks other than 0 opened for writing: %s' % bad_writers[:6])
    require(any(r == 0 for r, _ in writers), 'no_output_written', 'rank 0 wrote nothing')
    for key, path in out.items():
        require(os.path.exists(path), 'output_missing', lambda: 'no %s file' % key)
    inds = np.load(out['inds'], allow_pickle=True)
    ctrs = np.load(out['ctr'], allow_pickle=True)
    dist = ra.load(out['dist'])
    assig = ra.load(out['assig'])

    def flat(x):
        return np.asarray(x._data) if hasattr(x, '_data') else np.asarray(x).reshape(-1)
    lens_d = [int(v) for v in dist.lengths] if hasattr(dist, 'lengths') else ([len(r_) for r_ in np.atleast_2d(dist)] if len(P.lengths) > 1 else [len(flat(dist))])
    require(lens_d == list(map(int, P.lengths)), 'output_lengths', lambda: 'distances file rows %s, trajectories %s' % (lens_d, list(P.lengths)))
    d_flat, a_flat = flat(dist).astype(float), flat(assig).astype(int)
    gi = [int(starts[int(tr)] + int(fr)) for tr, fr in inds]
    for (tr, fr), gidx in zip(inds, gi):
        require(0 <= tr < len(P.lengths) and 0 <= fr < P.lengths[int(tr)], 'center_index_wrong', lambda: 'centre (%s, %s) outside trajectory lengths %s' % (tr, fr, list(P.lengths)))
    centers = [np.asarray(c) for c in ctrs]
    M.check_consistent(P.X, P.metric_name, gi, centers, a_flat, d_flat, where='output files of apps.cluster (%s, %d ranks):' % (algo, P.N))
    if algo == 'kcenters' or n_iters == 0:
        if tie_free:
            require(gi == [int(c) for c in serial.center_indices] and np.array_equal(a_flat, serial.assignments) and
                    np.array_equal(d_flat, serial.distances), 'differs_from_serial',
                    lambda: 'files written by %d ranks decode to centres %s, serial run gives %s' % (P.N, gi, list(map(int, serial.center_indices))))
            ctx.hit('app_equals_serial')
    else:
        if tie_free:
            require(len(gi) == len(serial.center_indices), 'cluster_count_changed', 'k-hybrid changed the number of clusters')
            require(M.cost(d_flat) <= M.cost(serial.distances) * (1 + 1e-12), 'cost_increased', 'k-hybrid output worse than its k-centers start')


def app_subsampled(ctx, P, e, capp, argv, out, rows, starts, sub, k, cutoff, algo, poison, d):
    t = ctx.tape
    srows = [r[::sub] for r in rows]
    Xs = np.concatenate(srows)
    slens = [len(r) for r in srows]
    sstarts = np.concatenate([[0], np.cumsum(slens)[:-1]]).astype(int)
    kw = C.kc_kwargs(k, cutoff)
    serial = ctx.sut(e['kcenters'].kcenters, Xs.copy(), P.metric_name, **kw)
    g, tie_free = M.greedy_run(Xs, P.model_metric, k, cutoff, tol=P.tie_tol(), cut_tol=P.cut_tol())
    old_mode = capp.mpi_mode
    capp.mpi_mode = P.N > 1
    np.random.seed(t.draw(2 ** 31 - 1))
    try:
        with write_guard(ctx, d) as writers:
            with C.Poison(ctx, poison, seed=3):
                w = C.make_world(ctx, P.N, poison)
                rcs = w.run(lambda r: capp.main(list(argv)))
    finally:
        capp.mpi_mode = old_mode
    st = w.stats()
    ctx.steps += st['collectives'] + st['decisions']
    ctx.fp(tuple(w.sched_trace), 'sub', sub)
    if st['decisions'] > 0 and P.N >= 2:
        ctx.nontrivial = True
    ctx.hit('app_end_to_end')
    require(all(rc == 0 for rc in rcs), 'app_failed', lambda: 'main() returned %s' % rcs)
    bad_writers = sorted({(r, f) for r, f in writers if r != 0})
    require(not bad_writers, 'non_root_rank_wrote_output', lambda: 'ranks other than 0 opened for writing: %s' % bad_writers[:6])
    for key in ('ctr', 'inds'):
        require(os.path.exists(out[key]), 'output_missing', lambda: 'no %s file' % key)
    inds = np.load(out['inds'], allow_pickle=True)
    ctrs = np.load(out['ctr'], allow_pickle=True)
    require(len(inds) == len(ctrs), 'center_count_mismatch', lambda: '%d centre indices, %d centre coordinates' % (len(inds), len(ctrs)))
    gi = []
    for (tr, fr), c in zip(inds, ctrs):
        tr, fr = int(tr), int(fr)
        require(0 <= tr < len(rows) and 0 <= fr < len(rows[tr]), 'center_index_wrong',
                lambda: 'centre (%d, %d) is outside the files on disk (lengths %s, --subsample %d)' % (tr, fr, [len(r) for r in rows], sub))
        require(np.array_equal(np.asarray(c).reshape(rows[tr][fr].shape), rows[tr][fr]), 'center_not_frame',
                lambda: 'centre index (%d, %d) addresses frame %s of the file, the centre written is %s (--subsample %d)' %
                (tr, fr, rows[tr][fr].tolist(), np.asarray(c).tolist(), sub))
        require(fr % sub == 0, 'center_index_wrong', lambda: 'frame %d was never loaded with --subsample %d' % (fr, sub))
        gi.append(int(sstarts[tr] + fr // sub))
    if (algo == 'kcenters' or '--cluster-iterations' not in argv or argv[argv.index('--cluster-iterations') + 1] == '0') and tie_free:
        require(gi == [int(c) for c in serial.center_indices], 'differs_from_serial',
                lambda: 'subsampled run on %d ranks: centres %s, serial run on the strided data gives %s' % (P.N, gi, list(map(int, serial.center_indices))))
        ctx.hit('app_equals_serial')


# ---------------------------------------------------------------- trajectories + RMSD through the front end
def app_traj_scenario(ctx):
    """`apps.cluster.main --trajectories ... --topology ... --atoms ...` on N simulated ranks: striped loading through the
    (simulated) worker pool, RMSD clustering, reassembly, and rank 0 writing indices, structures, labels and distances."""
    import pickle
    import mdtraj as md
    from ..engines import simpool
    from .c10 import make_top
    t = ctx.tape
    e = C.E()
    from enspara.apps import cluster as capp
    ra = e['ra']
    U = e['util']
    N = t.irange(1, 4)
    ngroups = t.choice((1, 1, 1, 2, 2, 3, 3))
    two = ngroups >= 2
    n_res = t.irange(3, 4)        # at least 6 selected atoms (see clcommon: 4-atom frames are degenerate)
    tops = [make_top(n_res, False)] + ([make_top(n_res, True)] if two else []) + ([make_top(n_res, False)] if ngroups == 3 else [])
    share_top = ngroups == 3 and t.flag()        # the third group names the first group's topology file again
    selection = t.choice(('name CA or name C', 'name N or name CA or name C'))
    sub = 1 if t.flag(2, 3) else t.irange(2, 3)
    ext = t.choice(('h5', 'xtc', 'h5'))
    d = ctx.scratch()
    rs = np.random.RandomState(t.draw(2 ** 31 - 1))
    topfiles, trjsets, loaded_sel, loaded_all, sels, group_of = [], [], [], [], [], []
    n_first = max(N - (ngroups - 1), 1) + t.draw(3)
    for ti, top in enumerate(tops):
        if ti == 2 and share_top:
            tf = topfiles[0]
        else:
            tf = os.path.join(d, 'top%d.pdb' % ti)
            md.Trajectory(rs.rand(1, top.n_atoms, 3).astype('float32'), top).save(tf)
        topfiles.append(tf)
        ftop = md.load(tf).top
        sel = ftop.select(selection)
        sels.append(sel)
        files = []
        for j in range(n_first if ti == 0 else t.irange(1, 2)):
            Lf = 1 if t.flag(1, 6) else t.irange(1, 6)
            x = rs.rand(Lf, top.n_atoms, 3).astype('float32')
            # names are given explicitly on the command line; the front end sorts what each glob pattern expands to, so keep
            # every name its own pattern
            fn = os.path.join(d, 'g%d_t%02d.%s' % (ti, j, ext))
            md.Trajectory(x, top).save(fn)
            files.append(fn)
            loaded_sel.append(md.load(fn, top=ftop, atom_indices=sel, stride=sub).xyz)
            loaded_all.append(md.load(fn, top=ftop).xyz)
            group_of.append(ti)
        trjsets.append(files)
    flat_files = [f for fs in trjsets for f in fs]
    slens = [len(x) for x in loaded_sel]
    full_lens = [len(x) for x in loaded_all]
    Xall = np.concatenate(loaded_sel).astype(np.float32)
    n = len(Xall)
    if n < 3 or len(flat_files) < N:
        ctx.count('traj_app_too_small')
        return
    P = C.Problem.__new__(C.Problem)
    P.N, P.lengths, P.n, P.atoms, P.dim = N, slens, n, Xall.shape[1], Xall.shape[1]
    P.dtype, P.metric_name, P.rmsd_as_callable, P.X = 'float32', 'rmsd', False, Xall
    P.model_metric, P.scale, P.jitter = M.METRICS['rmsd'], 1.0, True
    P.l2g = M.local_to_global(slens, N)
    k, cutoff = P.draw_stop(ctx, max_k=6)
    algo = t.choice(('kcenters', 'kcenters', 'khybrid'))
    n_iters = t.irange(0, 2) if algo == 'khybrid' else None
    nprocs = t.irange(1, 4)
    out = dict(dist=os.path.join(d, 'out-dist.h5'), assig=os.path.join(d, 'out-assig.h5'),
               ctr=os.path.join(d, 'out-centers.pickle'), inds=os.path.join(d, 'out-inds.npy'))
    argv = ['cluster']
    for fs, tf in zip(trjsets, topfiles):
        argv += ['--trajectories'] + fs + ['--topology', tf]
    argv += ['--atoms', selection, '--algorithm', algo, '--distances', out['dist'], '--assignments', out['assig'],
             '--center-features', out['ctr'], '--center-indices', out['inds']]
    if t.flag():
        argv += ['--cluster-distance', 'rmsd']
    if k is not None:
        argv += ['--cluster-number', str(k)]
    if cutoff is not None:
        argv += ['--cluster-radius', repr(float(cutoff))]
    if n_iters is not None:
        argv += ['--cluster-iterations', str(n_iters)]
    if sub > 1:
        argv += ['--subsample', str(sub), '--no-reassign']
        ctx.hit('traj_app_subsample')
    ctx.scenario.update(family='app_trajectories', ranks=N, topologies=len(tops), files=[len(f) for f in trjsets], lengths_on_disk=full_lens,
                        subsample=sub, selection=selection, format=ext, algo=algo, n_clusters=k, dist_cutoff=cutoff, n_iters=n_iters,
                        pool_workers=nprocs, argv=[a if not a.startswith(d) else os.path.basename(a) for a in argv])
    ctx.fp('app_traj', N, tuple(full_lens), sub, selection, ext, algo, k, cutoff, n_iters, nprocs, Xall.tobytes())
    kw = C.kc_kwargs(k, cutoff)
    serial = ctx.sut(e['kcenters'].kcenters, M.as_traj(Xall), 'rmsd', **kw)
    g, tie_free = M.greedy_run(Xall, P.model_metric, k, cutoff, tol=P.tie_tol(), cut_tol=P.cut_tol(), noise=P.noise)
    old_mode, old_np = capp.mpi_mode, U.auto_nprocs
    capp.mpi_mode = N > 1
    U.auto_nprocs = lambda: nprocs
    np.random.seed(t.draw(2 ** 31 - 1))
    try:
        with simpool.installed(ctx):
            with write_guard(ctx, d) as writers:
                w = C.make_world(ctx, N, 0)
                rcs = w.run(lambda r: capp.main(list(argv)))
    finally:
        capp.mpi_mode, U.auto_nprocs = old_mode, old_np
    st = w.stats()
    ctx.steps += st['collectives'] + st['decisions']
    ctx.count('collectives', st['collectives'])
    ctx.fp(tuple(w.sched_trace))
    if st['decisions'] > 0 and N >= 2:
        ctx.nontrivial = True
    ctx.hit('traj_app_end_to_end')
    if two:
        ctx.hit('traj_app_two_topologies')
    if ngroups == 3:
        ctx.hit('traj_app_three_groups')
        if len({group_of[int(tr)] for tr, _ in np.load(out['inds'], allow_pickle=True)}) < 3 if os.path.exists(out['inds']) else False:
            ctx.hit('traj_app_group_without_centre')
    require(all(rc == 0 for rc in rcs), 'app_failed', lambda: 'main() returned %s' % rcs)
    bad_writers = sorted({(r, f) for r, f in writers if r != 0})
    require(not bad_writers, 'non_root_rank_wrote_output', lambda: 'ranks other than 0 opened for writing: %s' % bad_writers[:6])
    for key in ('ctr', 'inds') + (('dist', 'assig') if sub == 1 else ()):
        require(os.path.exists(out[key]), 'output_missing', lambda: 'no %s file' % key)
    inds = np.load(out['inds'], allow_pickle=True)
    with open(out['ctr'], 'rb') as f:
        ctrs = pickle.load(f)
    require(len(inds) == len(ctrs), 'center_count_mismatch', lambda: '%d centre indices, %d centre structures' % (len(inds), len(ctrs)))
    sstarts = np.concatenate([[0], np.cumsum(slens)[:-1]]).astype(int)
    gi, want_structs = [], []
    for tr, fr in inds:
        tr, fr = int(tr), int(fr)
        require(0 <= tr < len(flat_files) and 0 <= fr < full_lens[tr], 'center_index_wrong',
                lambda: 'centre (%d, %d) is outside the files on disk (lengths %s, --subsample %d)' % (tr, fr, full_lens, sub))
        require(fr % sub == 0, 'center_index_wrong', lambda: 'frame %d was never loaded with --subsample %d' % (fr, sub))
        gi.append(int(sstarts[tr] + fr // sub))
        want_structs.append((group_of[tr], loaded_all[tr][fr]))
    # the structures written are the addressed frames, all atoms (with one topology in the order of the index file; with
    # several the front end groups them by topology, so only the collection is compared)
    got_structs = [np.asarray(c.xyz[0]) for c in ctrs]
    if not two:
        for i, ((_, wx), gx) in enumerate(zip(want_structs, got_structs)):
            require(gx.shape == wx.shape and np.allclose(gx, wx, rtol=0, atol=1e-6), 'center_not_frame',
                    lambda: 'structure %d in the centres file is not frame %s of the files on disk' % (i, tuple(int(v) for v in inds[i])))
    else:
        pool_ = list(want_structs)
        for i, gx in enumerate(got_structs):
            hit = [j for j, (_, wx) in enumerate(pool_) if wx.shape == gx.shape and np.allclose(gx, wx, rtol=0, atol=1e-6)]
            require(hit, 'center_not_frame', lambda: 'structure %d in the centres file is none of the frames the index file addresses' % i)
            pool_.pop(hit[0])
    if (algo == 'kcenters' or n_iters == 0) and tie_free:
        require(gi == [int(c) for c in serial.center_indices], 'differs_from_serial',
                lambda: 'trajectory app on %d ranks: centres %s, serial library run on the same frames gives %s' %
                (N, gi, list(map(int, serial.center_indices))))
        ctx.hit('traj_app_equals_serial')
    require(len(set(gi)) == len(gi), 'duplicate_center', lambda: 'centres %s' % gi)
    if sub == 1:
        dist = ra.load(out['dist'])
        assig = ra.load(out['assig'])

        def flat(x):
            return np.asarray(x._data) if hasattr(x, '_data') else np.asarray(x).reshape(-1)
        lens_d = [int(v) for v in dist.lengths] if hasattr(dist, 'lengths') else ([len(r_) for r_ in np.atleast_2d(dist)] if len(slens) > 1 else [len(flat(dist))])
        require(lens_d == list(map(int, slens)), 'output_lengths', lambda: 'distances file rows %s, trajectories %s' % (lens_d, slens))
        d_flat, a_flat = flat(dist).astype(float), flat(assig).astype(int)
        centers_sel = [Xall[c] for c in gi]
        M.check_consistent(Xall, 'rmsd', gi, centers_sel, a_flat, d_flat, where='output files of apps.cluster --trajectories (%s, %d ranks):' % (algo, N))
        if (algo == 'kcenters' or n_iters == 0) and tie_free:
            require(np.array_equal(a_flat, serial.assignments) and P.same_dist(d_flat, serial.distances), 'differs_from_serial',
                    lambda: 'labels / distances written by %d ranks differ from the serial library run' % N)


# ---------------------------------------------------------------- k-medoids through the front end, with a restart
def app_kmedoids_scenario(ctx):
    """`--algorithm kmedoids` restarted from files the front end wrote itself (`--init-center-inds`, `--init-assignments`,
    `--init-distances`): a k-centers run in one process, then k-medoids sweeps from its output files on N simulated ranks.  Every set of output files must decode to a
    self-consistent clustering, and the restart must not be worse than what it started from."""
    t = ctx.tape
    e = C.E()
    from enspara.apps import cluster as capp
    ra = e['ra']
    P = C.Problem(ctx, max_ranks=4, max_frames=36, dtype=t.choice(('float64', 'float32')), metric=t.choice(('euclidean', 'manhattan')))
    if len(set(P.lengths)) == 1 and len(P.lengths) > 1:
        # trajectories of unequal length only: for equal lengths the front end writes rectangular arrays (one HDF5 node) and
        # its own restart then reads that node as ONE trajectory and fails - a defect of the restart plumbing at HEAD that
        # none of the listed properties covers (noted in DESIGN.md section 13)
        P.lengths[0] += 1 if P.lengths[0] > 1 else 0
        if len(set(P.lengths)) == 1:
            P.lengths[-1] += 1
        P.n = int(sum(P.lengths))
        P.X = M.gen_points(t, P.n, P.dim, P.dtype, P.jitter)
        P.l2g = M.local_to_global(P.lengths, P.N)
    if len(P.lengths) < 2 or P.n < 4:
        ctx.count('kmedoids_app_too_small')
        return
    K = t.irange(1, min(5, P.n - 1))
    d = ctx.scratch()
    starts = np.concatenate([[0], np.cumsum(P.lengths)[:-1]]).astype(int)
    rows = [P.X[s:s + L] for s, L in zip(starts, P.lengths)]
    feats = []
    for i, r in enumerate(rows):
        fn = os.path.join(d, 'feat%02d.npy' % i)
        np.save(fn, r)
        feats.append(fn)

    def outs(tag):
        return dict(dist=os.path.join(d, tag + '-dist.h5'), assig=os.path.join(d, tag + '-assig.h5'),
                    ctr=os.path.join(d, tag + '-centers.npy'), inds=os.path.join(d, tag + '-inds.npy'))

    def argv_for(o, iters, init=None):
        # the starting state comes from the front end's own (deterministic) k-centers run: a k-medoids COLD start seeds
        # itself from OS entropy, which no seed of ours could replay
        algo = ['--algorithm', 'kcenters'] if init is None else ['--algorithm', 'kmedoids', '--cluster-iterations', str(iters)]
        a = ['cluster', '--features'] + feats + algo + ['--cluster-distance', P.metric_name, '--cluster-number', str(K),
                                                       '--distances', o['dist'], '--assignments', o['assig'],
                                                       '--center-features', o['ctr'], '--center-indices', o['inds']]
        if init is not None:
            a += ['--init-center-inds', init['inds'], '--init-assignments', init['assig'], '--init-distances', init['dist']]
        return a

    def decode(o, where):
        for key, path in o.items():
            require(os.path.exists(path), 'output_missing', lambda: '%s: no %s file' % (where, key))
        inds = np.load(o['inds'], allow_pickle=True)
        ctrs = np.load(o['ctr'], allow_pickle=True)
        dist = ra.load(o['dist'])
        assig = ra.load(o['assig'])
        require(hasattr(dist, 'lengths') and [int(v) for v in dist.lengths] == list(map(int, P.lengths)), 'output_lengths',
                lambda: '%s: distances file rows %s, trajectories %s' % (where, getattr(dist, 'lengths', None), list(P.lengths)))
        d_flat, a_flat = np.asarray(dist._data, dtype=float), np.asarray(assig._data).astype(int)
        gi = []
        for tr, fr in inds:
            require(0 <= tr < len(P.lengths) and 0 <= fr < P.lengths[int(tr)], 'center_index_wrong',
                    lambda: '%s: centre (%s, %s) outside trajectory lengths %s' % (where, tr, fr, list(P.lengths)))
            gi.append(int(starts[int(tr)] + int(fr)))
        M.check_consistent(P.X, P.metric_name, gi, [np.asarray(c) for c in ctrs], a_flat, d_flat, where=where, allow_dup_centers=True)
        require(len(gi) == K, 'cluster_count_changed', lambda: '%s: %d clusters, %d asked for' % (where, len(gi), K))
        D = np.array([P.model_metric(P.X, P.X[c]) for c in gi])
        own = D[a_flat, np.arange(P.n)]
        return gi, float(np.mean(own * own))

    def run(argv, N):
        old_mode = capp.mpi_mode
        capp.mpi_mode = N > 1
        try:
            with write_guard(ctx, d) as writers:
                w = C.make_world(ctx, N, 0, suffix='k%d' % N)
                rcs = w.run(lambda r: capp.main(list(argv)))
        finally:
            capp.mpi_mode = old_mode
        st = w.stats()
        ctx.steps += st['collectives'] + st['decisions']
        ctx.fp(tuple(w.sched_trace))
        if st['decisions'] > 0 and N >= 2:
            ctx.nontrivial = True
        require(all(rc == 0 for rc in rcs), 'app_failed', lambda: 'main() returned %s' % rcs)
        bad_writers = sorted({(r, f) for r, f in writers if r != 0})
        require(not bad_writers, 'non_root_rank_wrote_output', lambda: 'ranks other than 0 opened for writing: %s' % bad_writers[:6])

    it1, it2 = t.irange(1, 2), t.irange(1, 2)
    ctx.scenario.update(P.describe(), family='app_kmedoids', n_clusters=K, iterations=[it1, it2], restart_ranks=P.N)
    ctx.fp('app_km', P.N, tuple(P.lengths), P.dtype, P.metric_name, K, it1, it2, P.X.tobytes())
    o1 = outs('cold')
    np.random.seed(t.draw(2 ** 31 - 1))
    run(argv_for(o1, it1), 1)
    gi1, cost1 = decode(o1, 'front end, k-centers run that provides the starting state:')
    o2 = outs('restart')
    np.random.seed(t.draw(2 ** 31 - 1))
    run(argv_for(o2, it2, init=o1), P.N)
    gi2, cost2 = decode(o2, 'k-medoids front end, restart on %d ranks:' % P.N)
    require(cost2 <= cost1 * (1 + M.rtol_for(P.dtype) * 8) + 1e-300, 'cost_increased',
            lambda: 'restart from the files of the first run raised the cost %.17g -> %.17g' % (cost1, cost2))
    ctx.hit('app_kmedoids_restart')
    if P.N >= 2:
        ctx.hit('app_kmedoids_restart_mpi')
