"""C01 — clustering results are self-consistent for every algorithm and input.

Every clustering entry point, serial (world of size one) and on N simulated
ranks under the seeded MPI scheduler; k-medoids accept/reject histories are
driven from the tape through the public warm-start / proposals interface, and
the state after every sweep is checked against an independent float64 model.
"""
import numpy as np

from ..core.run import require
from ..models import cluster as M
from . import clcommon as C
from . import clrun

ID = 'C01'
RULE = ('Each run draws an entry point (kcenters / kmedoids / hybrid; function or estimator form; cold start, '
        'init_centers warm start, or (labels, distances, centres) warm start in three spellings of the centre '
        'indices), a setting (serial, or 2..6 simulated ranks with rank schedule, eager roots and poisoned receive '
        'buffers), data, metric, stopping rule, and - for k-medoids - the history of proposals (which member is '
        'proposed for which cluster in which sweep) or a random seed. Non-trivial: >= 2 clusters and either a k-medoids '
        'proposal was processed or >= 2 ranks were scheduled; In the thorough tier a quarter of the runs use deeper bounds (up to 10-12 ranks, 120-150 frames, 30-36 trajectories, 16 centres). distinct = digest of configuration, data, history, schedule.')
BUDGET = {'quick': dict(runs=3000, wall_s=55, chunk=25), 'thorough': dict(runs=60000, wall_s=780, chunk=50)}
COMPONENTS = {'real': ['enspara.cluster.kcenters/kmedoids/hybrid/util', 'enspara.mpi.ops', 'compiled libdist kernels'],
              'stub': ['MPI library (simmpi)', 'heap allocator (simalloc)']}
ASSUMPTIONS = ['for md.Trajectory data the metric model is mdtraj.rmsd itself on the whole data set; two evaluations of one RMSD may differ by sqrt(d^2 + 2e-4) - d (the float32 routine evaluated on frames already moved to their centroid, or in another batch; measured up to 1e-5 in the mean squared deviation, heavy-tailed), reported values are compared with that allowance, near-ties inside it make a scenario not tie-free, and because mdtraj.rmsd moves the frames it is given to their centroid in place, centres and the caller\'s data are compared up to that translation', 'data sets consist of distinct points', 'ties between equidistant centres may be broken either way; '
               'only minimality of the reported distance is demanded',
               'explicit proposals are members of the cluster being updated (one real proposal per sweep, the other '
               'clusters re-propose their current centre)',
               'python containers of centre indices may be updated in place; ndarray arguments may not']
REACH_EXPECTED = ['rmsd_trajectory_data', 'pam_dst_dn', 'pam_dst_up_assig_other', 'pam_dst_up_assig_this', 'proposal_accepted',
                  'proposal_rejected', 'mpi_run', 'estimator_form', 'warm_start_state', 'cold_start_kmedoids',
                  'after_every_sweep_checked', 'cinds_as_pairs', 'cinds_as_ndarray', 'strided_input']


def check(ctx, P, g, where, sut_exact=True):
    sc = None
    if P.metric_name == 'rmsd':
        sc = None          # last bits of an RMSD depend on the batch it is evaluated in
    elif sut_exact and not P.metric_name.startswith('callable'):
        from enspara.cluster import util
        sc = util._get_distance_method(P.metric_name)
    elif sut_exact:
        sc = M.sut_sqeuclid if P.metric_name == 'callable_sq' else M.sut_chebyshev
    M.check_consistent(P.X, P.metric_name, g.ci, g.centers, g.labels, g.distances, sut_callable=sc, where=where)
    ctx.count('consistency_checks')


def scenario(ctx):
    t = ctx.tape
    e = C.E()
    mpi = t.flag(2, 5)
    deep = ctx.tier == 'thorough' and t.flag(1, 4)
    P = C.Problem(ctx, want_ranks=mpi, max_ranks=10 if deep else 6, max_frames=120 if deep else 48, max_traj=30 if deep else 24,
                  max_len=12 if deep else 9, allow_rmsd=True)
    if P.N == 1:
        mpi = False
    k, cutoff = P.draw_stop(ctx)
    case = t.choice(('kcenters', 'hybrid', 'hybrid', 'kmedoids_cold', 'sweeps', 'sweeps', 'sweeps'))
    if mpi and case == 'kmedoids_cold':
        case = 'sweeps'          # cold-start k-medoids is not supported under MPI
    form = 'estimator' if t.flag(1, 4) else 'function'
    poison = t.draw(7) if (mpi and t.flag()) else 0
    ctx.scenario.update(P.describe(), setting='mpi' if mpi else 'serial', case=case, form=form, n_clusters=k,
                        dist_cutoff=cutoff, poison=poison)
    ctx.fp('c01', mpi, P.N, tuple(P.lengths), P.dtype, P.metric_name, case, form, k, cutoff, P.X.tobytes())
    if mpi:
        ctx.hit('mpi_run')
    if form == 'estimator':
        ctx.hit('estimator_form')

    layout = t.draw(4) if (not mpi and t.flag(1, 3)) else 0
    if layout:
        ctx.hit('strided_input')

    def run(sp, suffix=''):
        if mpi:
            return clrun.run_mpi(ctx, e, P, sp, poison=poison, suffix=suffix)
        return clrun.run_serial(ctx, e, P, dict(sp, layout=layout))

    if case == 'kcenters':
        init = None
        if not mpi and t.flag(1, 3):
            m = t.irange(1, min(4, P.n))
            init = t.perm(P.n)[:m]          # distinct frames in any order (e.g. the discovery order of an earlier run)
        spec = dict(algo='kcenters', form=form, k=k, cutoff=cutoff, tri=t.flag() and form == 'function' and P.is_metric())
        if form == 'estimator' and t.flag(1, 3):
            spec['late_params'] = 1 + t.draw(2)
        if init is not None:
            spec['init_centers'] = P.wrap(P.X[init].copy())
        g = run(spec)
        check(ctx, P, g, 'k-centers (%s):' % form)
        if form == 'estimator' and not mpi:
            est = g.est
            require(np.array_equal(est.labels_, g.labels) and np.array_equal(est.distances_, g.distances) and
                    list(est.center_indices_) == g.ci, 'estimator_attributes', 'labels_/distances_/center_indices_ differ from result_')
        if len(g.ci) >= 2 and mpi:
            ctx.nontrivial = True
        return

    if case == 'hybrid':
        n_iters = t.irange(0, 4)
        rseed = 0 if t.flag(1, 8) else t.draw(1000)        # zero is a seed like any other
        spec = dict(algo='hybrid', form=form, k=k, cutoff=cutoff, n_iters=n_iters, random_state=rseed)
        if form == 'estimator' and t.flag(1, 3):
            spec['late_params'] = 1 + t.draw(2)
        ctx.scenario.update(n_iters=n_iters, random_state=rseed)
        g = run(spec)
        check(ctx, P, g, 'k-hybrid n_iters=%d (%s):' % (n_iters, form))
        # the state after every sweep, observed by prefix runs with the same seed
        if form == 'function' and n_iters >= 2:
            for it in range(1, n_iters):
                gi = run(dict(spec, n_iters=it), suffix=str(it + 1))
                check(ctx, P, gi, 'k-hybrid after sweep %d of %d:' % (it, n_iters))
            ctx.hit('after_every_sweep_checked')
        if len(g.ci) >= 2 and (n_iters > 0 or mpi):
            ctx.nontrivial = True
        return

    if case == 'kmedoids_cold':
        kk = t.irange(1, min(6, P.n))
        n_iters = t.irange(1, 4)
        rseed = 0 if t.flag(1, 8) else t.draw(1000)        # zero is a seed like any other
        spec = dict(algo='kmedoids', form='function', k=kk, n_iters=n_iters, random_state=rseed)
        ctx.scenario.update(n_iters=n_iters, random_state=rseed, n_clusters=kk)
        g = run(spec)
        check(ctx, P, g, 'cold-start k-medoids:')
        require(len(g.ci) == kk, 'cluster_count', lambda: 'asked for %d clusters, got %d' % (kk, len(g.ci)))
        ctx.hit('cold_start_kmedoids')
        if kk >= 2:
            ctx.nontrivial = True
        return

    # ---- sweeps: a k-centers state refined sweep by sweep through the warm-start interface
    g0 = run(dict(algo='kcenters', form='function', k=k, cutoff=cutoff), suffix='0')
    check(ctx, P, g0, 'k-centers start state:')
    st = clrun.State.of(g0)
    n_sweeps = t.irange(1, 5)
    cform = t.draw(3)
    if cform == 1:
        ctx.hit('cinds_as_pairs')
    if cform == 2 and not mpi:
        ctx.hit('cinds_as_ndarray')
    history = []
    for s in range(n_sweeps):
        K = len(st.ci)
        use_random = t.flag(1, 3)
        if use_random:
            extra = dict(random_state=t.draw(1000))
            if mpi and t.flag():
                extra['per_rank_rng'] = True
                ctx.hit('per_rank_generators')
            desc = ('random', extra['random_state'])
        else:
            cid = t.draw(K)
            members = np.where(st.labels == cid)[0]
            p = int(members[t.draw(len(members))])
            props = list(st.ci)
            props[cid] = p
            extra = dict(proposals=props)
            dn, uo, ut = clrun.pam_branches(P, st, cid, p)
            if p != st.ci[cid]:
                if dn:
                    ctx.hit('pam_dst_dn', dn)
                if uo:
                    ctx.hit('pam_dst_up_assig_other', uo)
                if ut:
                    ctx.hit('pam_dst_up_assig_this', ut)
            desc = ('propose', cid, p)
        if form == 'estimator' and use_random:
            extra['form'] = 'estimator'
            np.random.seed(extra['random_state'])       # the estimator has no seed argument: it draws from numpy's global state
        g = clrun.one_sweep(ctx, e, P, st, extra, mpi, poison=poison, cinds_form=cform, suffix='s%d' % s)
        check(ctx, P, g, 'k-medoids sweep %d (%s):' % (s, desc,))
        require(len(g.ci) == K, 'cluster_count', lambda: 'sweep changed the number of clusters %d -> %d' % (K, len(g.ci)))
        if not use_random:
            changed = g.ci != st.ci
            ctx.hit('proposal_accepted' if changed else 'proposal_rejected')
            if changed:
                require(g.ci == props, 'wrong_center_committed', lambda: 'proposed %s, centres became %s' % (props, g.ci))
            else:
                require(np.array_equal(g.labels, st.labels) and P.same_dist(g.distances, st.distances),
                        'rejected_state_changed', lambda: 'proposal rejected but labels/distances changed: labels at %s, distances at %s (%s vs %s)' % (np.where(g.labels != st.labels)[0][:5].tolist(), np.where(g.distances != st.distances)[0][:5].tolist(), g.distances[g.distances != st.distances][:3].tolist(), st.distances[g.distances != st.distances][:3].tolist()))
        history.append(desc)
        st = clrun.State.of(g)
        ctx.steps += 1
    ctx.scenario['history'] = [list(h) for h in history]
    ctx.fp(tuple(history), cform)
    ctx.hit('warm_start_state')
    ctx.hit('after_every_sweep_checked')
    if len(st.ci) >= 2:
        ctx.nontrivial = True
