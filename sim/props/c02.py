"""C02 — k-centers picks farthest points, never widens the radius, stops exactly on cue.

Runs the serial algorithm (world of size one) and the distributed variant on N
simulated ranks under the seeded MPI scheduler; the oracle is an independent
greedy replay in float64 that follows the centres the library chose and accepts
any maximiser among ties.
"""
import numpy as np

from ..core.run import require
from ..models import cluster as M
from . import clcommon as C
from . import clrun

ID = 'C02'
RULE = ('Each run draws: serial or 2..6 simulated ranks (with the rank schedule, eager roots, poisoned receive '
        'buffers), trajectory lengths, data, metric, stopping rule (n_clusters, cutoff placed between two radii of '
        'the greedy replay, both; None/inf spellings), function or estimator form, triangle shortcut on/off, '
        'initial centres (serial; including ones that already satisfy the stopping rule). Non-trivial: at least two '
        'centres were chosen or a stopping decision was exercised; In the thorough tier a quarter of the runs use deeper bounds (up to 10-12 ranks, 120-150 frames, 30-36 trajectories, 16 centres). distinct = digest of configuration, data and '
        'rank schedule.')
BUDGET = {'quick': dict(runs=4000, wall_s=55, chunk=25), 'thorough': dict(runs=80000, wall_s=780, chunk=50)}
COMPONENTS = {'real': ['enspara.cluster.kcenters (serial and MPI iteration)', 'enspara.cluster.util',
                       'enspara.mpi.ops', 'compiled libdist kernels'],
              'stub': ['MPI library (simmpi)', 'heap allocator (simalloc) for poisoned receive buffers']}
ASSUMPTIONS = ['for md.Trajectory data the metric model is mdtraj.rmsd itself on the whole data set; two evaluations of one RMSD may differ by sqrt(d^2 + 2e-4) - d (the float32 routine evaluated on frames already moved to their centroid, or in another batch; measured up to 1e-5 in the mean squared deviation, heavy-tailed), reported values are compared with that allowance, near-ties inside it make a scenario not tie-free, and because mdtraj.rmsd moves the frames it is given to their centroid in place, centres and the caller\'s data are compared up to that translation', 'metrics obey the triangle inequality (euclidean, manhattan, chebyshev callable)',
               'clauses that compare two runs bit for bit (shortcut on/off, prefix runs) are evaluated only on '
               'scenarios the float64 model classifies as tie-free',
               'stopping decisions within 1e-11 relative of the cutoff (4e-6 for float32 data, whose kernel subtracts in float32) are accepted either way']
REACH_EXPECTED = ['serial_mode_inside_world', 'estimator_configured_after_construction', 'rmsd_trajectory_data', 'cutoff_just_below_radius', 'stop_by_count', 'stop_by_cutoff', 'zero_iterations_warm_start', 'triangle_shortcut_compared',
                  'mpi_run', 'two_approx_checked', 'prefix_checked', 'init_centers_run', 'init_centers_as_list']


def scenario(ctx):
    t = ctx.tape
    e = C.E()
    mpi = t.flag(2, 5)
    deep = ctx.tier == 'thorough' and t.flag(1, 4)
    P = C.Problem(ctx, want_ranks=mpi, max_ranks=10 if deep else 6, max_frames=(150 if deep else 40) if not t.flag(1, 4) else 9,
                  max_traj=30 if deep else 24, max_len=14 if deep else 9, allow_rmsd=True)
    if mpi and P.N == 1 and t.flag():
        mpi = False
    k, cutoff = P.draw_stop(ctx)
    form = 'estimator' if t.flag(1, 4) else 'function'
    tri = t.flag() and form == 'function' and P.is_metric()
    spelling = t.draw(2)
    init = None
    if not mpi and t.flag(1, 3):
        m = t.irange(1, min(4, P.n))
        init = t.perm(P.n)[:m]       # m distinct frames (a bounded number of draws, also on a shortened tape)
        ctx.hit('init_centers_run')
    poison = t.draw(7) if (mpi and t.flag()) else 0
    spec = dict(algo='kcenters', form=form, k=k, cutoff=cutoff, tri=tri, spelling=spelling)
    if form == 'estimator' and t.flag(1, 3):
        # the stopping rule reaches the estimator after construction (set_params / attribute assignment)
        spec['late_params'] = 1 + t.draw(2)
        ctx.hit('estimator_configured_after_construction')
    init_list = None
    if init is not None:
        if t.flag():
            init_list = [P.wrap(P.X[i].copy()) for i in init]          # a plain list of frames
            spec['init_centers'] = init_list
            ctx.hit('init_centers_as_list')
        else:
            spec['init_centers'] = P.wrap(P.X[init].copy())
    ctx.scenario.update(P.describe(), setting='mpi' if mpi else 'serial', form=form, n_clusters=k, dist_cutoff=cutoff,
                        triangle=tri, init_frames=init, poison=poison)
    ctx.fp('c02', mpi, P.N, tuple(P.lengths), P.dtype, P.metric_name, form, k, cutoff, tri, tuple(init or ()),
           P.X.tobytes())

    def run(sp, suffix=''):
        if mpi:
            ctx.hit('mpi_run')
            return clrun.run_mpi(ctx, e, P, sp, poison=poison, suffix=suffix)
        return clrun.run_serial(ctx, e, P, sp)

    local_ok = P.metric_name != 'rmsd' or k is None or k < min(len(ix) for ix in P.l2g)      # RMSD: never down to 'every frame is a centre'
    if mpi and P.N >= 2 and init is None and t.flag(1, 6) and local_ok:
        # a job of N ranks in which every rank clusters its own shard serially (mpi_mode=False given explicitly)
        import copy
        ctx.hit('serial_mode_inside_world')
        gs = clrun.run_serial_inside_world(ctx, e, P, dict(spec, tri=False), suffix='L')
        for r, gr in enumerate(gs):
            Pr = copy.copy(P)
            Pr.X = P.local(r)
            Pr.n = len(Pr.X)
            Pr.lengths, Pr.N = [Pr.n], 1
            M.check_consistent(Pr.X, P.metric_name, gr.ci, gr.centers, gr.labels, gr.distances,
                               where='rank %d of %d clustering its own data with mpi_mode=False:' % (r, P.N))
            check_greedy(ctx, Pr, gr, k, cutoff, None)
        ctx.nontrivial = True
        return
    g = run(spec)
    if init_list is not None:
        require(len(init_list) == len(init) and all(M.frame_equal(P.metric_name, clrun.ctr(a_), P.X[i]) for a_, i in zip(init_list, init)), 'input_modified',
                lambda: 'the list passed as init_centers had %d entries before the call and has %d after it' % (len(init), len(init_list)))
    model, tie_free = M.greedy_run(P.X, P.model_metric, k, cutoff, init=init, tol=P.tie_tol(), cut_tol=P.cut_tol(), noise=P.noise)
    check_greedy(ctx, P, g, k, cutoff, init)
    if len(g.ci) >= 2:
        ctx.nontrivial = True
    if tie_free:
        require(g.ci == model.centers, 'not_greedy_sequence', lambda: 'centres %s, the unique greedy sequence is %s' %
                (g.ci, model.centers))
        # shortcut on/off: identical results are demanded when, in addition, no frame is (nearly) equidistant to a
        # new centre and its current one - there rounding may legitimately decide differently in the two variants
        if form == 'function' and model.assign_margin > P.tie_tol() and P.is_metric():
            g2 = run(dict(spec, tri=not tri), suffix='2')
            require(g2.ci == g.ci and np.array_equal(g2.labels, g.labels) and P.same_dist(g2.distances, g.distances),
                    'triangle_shortcut_differs', lambda: 'with shortcut=%s centres %s, with %s centres %s; labels differ at %s, '
                    'distances differ at %s' % (tri, g.ci, not tri, g2.ci, np.where(g2.labels != g.labels)[0][:6].tolist(),
                                                np.where(g2.distances != g.distances)[0][:6].tolist()))
            ctx.hit('triangle_shortcut_compared')
        # prefix consistency: the run asked for one centre fewer is a prefix of this one
        K = len(g.ci)
        m = len(init) if init is not None else 1
        if K - 1 >= m and t.flag():
            g3 = run(dict(spec, k=K - 1, spelling=0), suffix='3')
            require(g3.ci == g.ci[:K - 1], 'not_prefix_consistent', lambda: 'n_clusters=%d gives %s, which is not a prefix of %s' %
                    (K - 1, g3.ci, g.ci))
            ctx.hit('prefix_checked')
    else:
        ctx.count('tied_scenarios')
    # Gonzalez bound on tiny instances (pure post-condition)
    if P.n <= 9 and init is None and P.is_metric():
        opt = M.optimal_radius(P.X, P.model_metric, len(g.ci))
        rad = float(np.max(g.distances))
        require(rad <= 2 * opt * (1 + M.rtol_for(P.dtype) * 8) + 1e-300 + 2 * float(P.noise(opt)), 'not_2_approx',
                lambda: 'final radius %.17g > 2 x optimum %.17g for %d centres' % (rad, opt, len(g.ci)))
        ctx.postcond('two_approx')
        ctx.hit('two_approx_checked')


def check_greedy(ctx, P, g, k, cutoff, init):
    X = P.X
    metric = P.model_metric
    rtol = M.rtol_for(P.dtype) * 8
    n = P.n
    kk = np.inf if k is None else k
    cc = 0.0 if cutoff is None else float(cutoff)
    K = len(g.ci)
    require(K >= 1, 'no_centers', 'k-centers returned no centre')
    require(len(set(g.ci)) == K, 'duplicate_center', lambda: 'centres %s' % g.ci)
    m = len(init) if init is not None else 1
    if init is None:
        require(g.ci[0] == 0, 'first_center_not_frame0', lambda: 'first centre is frame %d' % g.ci[0])
    else:
        require(g.ci[:m] == list(init), 'initial_centers_not_kept', lambda: 'initial centres were frames %s, result starts %s' %
                (init, g.ci[:m]))
    # follow the library's choices
    rep = M.Greedy(X, metric, init=g.ci[:m])
    radii = [rep.radii[-1]]
    for j in range(m, K):
        c = g.ci[j]
        cur_max = rep.d.max()
        require(rep.d[c] >= cur_max * (1 - rtol) - 1e-300, 'not_farthest_point',
                lambda: 'centre #%d is frame %d at distance %.17g from the centres so far, but frame %d is at %.17g' %
                (j, c, rep.d[c], int(np.argmax(rep.d)), cur_max))
        rep._add(c)
        radii.append(rep.radii[-1])
        require(radii[-1] <= radii[-2] * (1 + rtol), 'radius_grew', lambda: 'radius %.17g -> %.17g' % (radii[-2], radii[-1]))

    ct = P.cut_tol()

    def above(r):      # definitely above the cutoff
        return r > cc * (1 + ct) and r > 0

    def not_above(r):  # definitely not above
        return r < cc * (1 - ct) or r <= 0.0 and cc >= 0

    # it must not have continued past a point where it had to stop ...
    for j in range(m, K):
        r_before = radii[j - m]
        have = j
        require(have < kk, 'stopped_late', lambda: 'added centre #%d although n_clusters=%s was reached' % (j + 1, k))
        require(not not_above(r_before), 'stopped_late', lambda: 'added centre #%d although the radius %.17g was already '
                '<= cutoff %.17g' % (j + 1, r_before, cc))
    # ... and must not have stopped while it had to continue
    r_end = radii[-1]
    if K < kk and K < n:
        require(not above(r_end), 'stopped_early', lambda: 'stopped with %d centres (n_clusters=%s) at radius %.17g > cutoff %.17g'
                % (K, k, r_end, cc))
    if K >= kk:
        ctx.hit('stop_by_count')
    elif K > m or not_above(r_end):
        ctx.hit('stop_by_cutoff')
    if K == m and init is not None:
        ctx.hit('zero_iterations_warm_start')
    # reported distances: maximum equals the covering radius of the reported centres
    require(abs(float(np.max(g.distances)) - r_end) <= rtol * max(r_end, 1.0) + float(P.noise(r_end)), 'radius_mismatch',
            lambda: 'max reported distance %.17g, covering radius of the reported centres %.17g' % (np.max(g.distances), r_end))
