"""C06 — ragged-array writes keep all views coherent over any operation history.

A tape-driven history machine: up to 30 mutating, observing and environment
operations on one or two RaggedArrays, checked after every step against a
list-of-rows model through the public API only.  The only nondeterminism here
is the history itself (and what the caller does with arrays it shares with the
object), which is what the tape explores and the minimiser shrinks.
"""
import numpy as np

from ..core.run import require
from ..engines.simmpi import SimViolation

ID = 'C06'
RULE = ('Each run draws a construction form (nested rows / flat data + lengths as list or array; copy=True/False; float64 or int64; '
        '1-D or fixed-width 2-D elements; equal or unequal lengths) and a history of 1..30 operations: element, row (same or new '
        'length), row-slice, 2-D-slice, fancy, mask and row-block assignment, append (rows / RaggedArray), augmented and binary '
        'arithmetic with scalars and ragged operands, comparisons, ~, and environment actions (caller mutates an array it passed in, '
        'mutates an operator result, writes through a fetched row). After every operation all observers are compared with the model. '
        'Non-trivial: >= 2 mutating operations were applied; distinct = digest of (construction, history).')
BUDGET = {'quick': dict(runs=12000, wall_s=55, chunk=100), 'thorough': dict(runs=300000, wall_s=780, chunk=200)}
COMPONENTS = {'real': ['enspara.ra.RaggedArray and its index helpers', 'numpy'], 'stub': []}
ASSUMPTIONS = ['only index and value forms used by upstream tests/docstrings are generated: non-negative slice starts, positive steps, '
               'reads that leave every selected row non-empty',
               'row reads are views by design, so write-through is exercised on a row fetched after the last structural change',
               'values keep the dtype of the array (no float written into an integer array)']
REACH_EXPECTED = ['nan_in_the_data', 'op_bitwise_mask_with_ints', 'negative_column_in_a_list', 'op_copied_object', 'rows_traded_lengths', 'op_stale_mask', 'mask_of_another_layout', 'append_wider_dtype', 'op_iterate_mutating', 'op_rejected_write', 'op_compare_lt', 'op_compare_ne', 'op_truediv', 'op_floordiv', 'op_mod', 'op_pow', 'op_mod_reflected', 'op_bitwise', 'op_reads2d', 'op_writes2d', 'op_helpers', 'construct_from_2d_block', 'row_assign_wider_dtype', 'introw_general_slice', 'op_rowslice_col', 'out_of_row_write_rejected', 'op_elem', 'op_row_same', 'op_row_newlen', 'op_introw_slice', 'op_slice2d', 'op_fancy', 'op_fancy_int', 'op_mask',
                  'op_mask_empty', 'op_rowblock', 'op_append_rows', 'op_append_ra', 'op_aug_scalar', 'op_aug_ragged', 'op_binary',
                  'env_source_mutated', 'env_lengths_mutated', 'env_result_mutated', 'env_write_through', 'env_selection_mutated', 'rect_to_ragged', 'ragged_to_rect', 'multidim_elements',
                  'out_of_row_rejected']


class Vals:
    def __init__(self, dtype):
        self.n = 100
        self.dtype = np.dtype(dtype)

    def take(self, shape):
        k = int(np.prod(shape)) if shape != () else 1
        v = np.arange(self.n, self.n + k, dtype=np.float64)
        self.n += k
        if self.dtype.kind == 'f':
            v = v + 0.5
        v = v.astype(self.dtype)
        return v.reshape(shape) if shape != () else v[0]


def _same_values(a, b):
    if a.dtype.kind == 'f' and b.dtype.kind == 'f':
        return bool(np.array_equal(a, b, equal_nan=True))       # a NaN in a cell is a value like any other
    return bool(np.array_equal(a, b))


def eq(a, b):
    a = np.asarray(a)
    b = np.asarray(b)
    return a.shape == b.shape and a.dtype == b.dtype and _same_values(a, b)


def eqv(a, b):
    """values and shape only"""
    a = np.asarray(a)
    b = np.asarray(b)
    return a.shape == b.shape and _same_values(a, b)


class Machine:
    def __init__(self, ctx):
        from enspara import ra
        self.ra = ra
        self.ctx = ctx
        self.t = ctx.tape
        self.hist = []
        self.mutations = 0
        self.stop = False
        self.kept_mask = None

    def bad(self, cls, msg):
        raise SimViolation(cls, '%s | history: %s' % (msg, self.hist[-6:]))

    def sut(self, fn, *a, **k):
        return self.ctx.sut(fn, *a, **k)

    # ------------------------------------------------------------ construction
    def construct(self):
        t = self.t
        self.dtype = t.choice(('float64', 'float64', 'int64'))
        self.vals = Vals(self.dtype)
        self.edim = 2 if t.flag(1, 5) else None
        if self.edim:
            self.ctx.hit('multidim_elements')
        n = t.irange(1, 5)
        L0 = t.irange(1, 5)
        equal = t.flag(1, 3)
        lens = [L0 if equal else t.irange(1, 5) for _ in range(n)]
        rows = [self.vals.take((L,) if self.edim is None else (L, self.edim)) for L in lens]
        form = t.draw(3)
        copy = not t.flag(1, 5)
        self.src = None
        if equal and self.edim is None and t.flag(1, 3):
            # the caller's rows are one rectangular 2-D array: building from it must copy, too
            src2d = np.stack(rows)
            a = self.sut(self.ra.RaggedArray, src2d)
            src2d[...] = self.vals.take(src2d.shape)
            self.ctx.hit('env_source_mutated')
            self.ctx.hit('construct_from_2d_block')
            desc = ('block2d', lens)
            self.hist.append(desc)
            self.a = a
            self.rows = [r.copy() for r in rows]
            self.ctx.scenario.update(construction=list(map(str, desc)), dtype=self.dtype, elem_dim=self.edim)
            self.observe('after construction')
            return
        if form == 0:
            as_lists = t.flag() and self.edim is None
            arg = [r.tolist() if as_lists else r.copy() for r in rows]
            a = self.sut(self.ra.RaggedArray, arg)
            desc = ('nested', lens)
        else:
            flat = np.concatenate(rows)
            Larg = list(lens) if form == 1 else np.array(lens)
            self.src = flat
            a = self.sut(self.ra.RaggedArray, flat, lengths=Larg, copy=copy) if not copy else \
                self.sut(self.ra.RaggedArray, flat, lengths=Larg)
            desc = ('flat', lens, 'list' if form == 1 else 'array', copy)
            if copy:
                # the caller keeps using its own arrays: must not show through
                flat[...] = self.vals.take(flat.shape)
                self.ctx.hit('env_source_mutated')
                if form == 2:
                    Larg[...] = Larg[::-1] + 1
                    self.ctx.hit('env_lengths_mutated')
            else:
                self.src = None
        self.hist.append(desc)
        self.a = a
        self.rows = [r.copy() for r in rows]
        self.ctx.scenario.update(construction=list(map(str, desc)), dtype=self.dtype, elem_dim=self.edim)
        self.observe('after construction')

    # ------------------------------------------------------------ observers
    def observe(self, where):
        a, rows, t = self.a, self.rows, self.t
        n = len(rows)
        lens = [len(r) for r in rows]
        if len(a) != n:
            self.bad('len_mismatch', '%s: len %d, model %d' % (where, len(a), n))
        if [int(x) for x in a.lengths] != lens:
            self.bad('lengths_stale', '%s: lengths %s, model %s' % (where, list(a.lengths), lens))
        st = [int(x) for x in np.concatenate([[0], np.cumsum(lens)[:-1]])]
        if [int(x) for x in a.starts] != st:
            self.bad('starts_stale', '%s: starts %s, model %s' % (where, list(a.starts), st))
        flat = np.concatenate(rows)
        if not eq(self.sut(a.flatten), flat.flatten()):
            self.bad('flat_data_differs', '%s: flatten %s, model %s' % (where, a.flatten().tolist()[:12], flat.flatten().tolist()[:12]))
        if a.dtype != flat.dtype:
            self.bad('dtype_changed', '%s: dtype %s, model %s' % (where, a.dtype, flat.dtype))
        if a.size != flat.size:
            self.bad('size_mismatch', '%s: size %s, model %s' % (where, a.size, flat.size))
        for i, r in enumerate(rows):
            got = self.sut(a.__getitem__, i)
            if not eqv(got, r):
                self.bad('row_differs', '%s: row %d is %s, model %s' % (where, i, np.asarray(got).tolist(), r.tolist()))
        it = [np.asarray(x) for x in a]
        if len(it) != n or any(not eqv(x, r) for x, r in zip(it, rows)):
            self.bad('iteration_differs', '%s: iteration yields %d rows' % (where, len(it)))
        if not eqv(self.sut(a.__getitem__, -1), rows[-1]):
            self.bad('row_differs', '%s: a[-1] differs' % where)
        shp = a.shape
        second = lens[0] if len(set(lens)) == 1 else None
        if shp[0] != n or shp[1] != second:
            self.bad('shape_mismatch', '%s: shape %s, model rows %d, row length %s' % (where, shp, n, second))
        # a few element / slice reads at tape-chosen places
        i = t.draw(n)
        j = t.draw(lens[i])
        for (ii, jj) in ((i, j), (i - n, j), (i, j - lens[i])):
            got = self.sut(a.__getitem__, (ii, jj))
            # an element read comes back as a length-one array (upstream tests compare it with ==)
            if not eqv(np.asarray(got).reshape(-1), np.asarray(rows[i][j]).reshape(-1)):
                self.bad('element_differs', '%s: a[%d,%d]=%s, model %s' % (where, ii, jj, np.asarray(got).tolist(), rows[i][j].tolist()))
        exc = self.ctx.expect_raise(a.__getitem__, (i, lens[i] + t.draw(2)))
        if exc is None:
            self.bad('out_of_row_read', '%s: a[%d,%d] returned data although row %d has %d elements' % (where, i, lens[i], i, lens[i]))
        self.ctx.hit('out_of_row_rejected')
        if self.edim is None:
            k = t.irange(1, min(lens))
            got = self.sut(a.__getitem__, (slice(None), slice(0, k)))
            self.cmp_rows(got, [r[0:k] for r in rows], '%s: a[:, 0:%d]' % (where, k))
            lo = t.draw(n)
            hi = t.irange(lo + 1, n)
            got = self.sut(a.__getitem__, slice(lo, hi))
            self.cmp_rows(got, rows[lo:hi], '%s: a[%d:%d]' % (where, lo, hi))
            pick = [t.draw(n) for _ in range(t.irange(1, 3))]
            got = self.sut(a.__getitem__, pick if t.flag() else np.array(pick))
            self.cmp_rows(got, [rows[p] for p in pick], '%s: a[%s]' % (where, pick))
            c0 = t.draw(lens[i])
            c1 = t.irange(c0 + 1, lens[i])
            got = self.sut(a.__getitem__, (i, slice(c0, c1)))
            if not eqv(got, rows[i][c0:c1]):
                self.bad('slice_differs', '%s: a[%d,%d:%d]' % (where, i, c0, c1))
            thr = rows[t.draw(n)][0]
            m = self.sut(a.__gt__, thr)
            self.cmp_rows(m, [r > thr for r in rows], '%s: a > %s' % (where, thr))
            inv = self.sut(m.__invert__)
            self.cmp_rows(inv, [~(r > thr) for r in rows], '%s: ~(a > %s)' % (where, thr))
            if bool(m.any()) != bool(np.any(flat > thr)) or bool(m.all()) != bool(np.all(flat > thr)):
                self.bad('reduction_differs', '%s: any/all of a > %s' % (where, thr))
            sel = self.sut(a.__getitem__, m) if bool(np.any(flat > thr)) else None
            if sel is not None and not eqv(sel, flat[flat > thr]):
                self.bad('mask_read_differs', '%s: a[a > %s] = %s, model %s' % (where, thr, np.asarray(sel).tolist(), flat[flat > thr].tolist()))
            if not eqv(a.max(), flat.max()) or not eqv(a.min(), flat.min()):
                self.bad('reduction_differs', '%s: min/max' % where)
            if bool((a == a).all()) != bool(np.all(flat == flat)):
                self.bad('comparison_differs', '%s: (a == a).all() is %s' % (where, bool((a == a).all())))
        self.ctx.steps += 1

    def cmp_rows(self, got, want, what):
        if not hasattr(got, 'lengths'):
            self.bad('wrong_result_type', '%s returned %s' % (what, type(got).__name__))
        if [int(x) for x in got.lengths] != [len(w) for w in want]:
            self.bad('slice_differs', '%s: row lengths %s, model %s' % (what, list(got.lengths), [len(w) for w in want]))
        for i, w in enumerate(want):
            if not eqv(got[i], w):
                self.bad('slice_differs', '%s: row %d is %s, model %s' % (what, i, np.asarray(got[i]).tolist(), np.asarray(w).tolist()))

    # ------------------------------------------------------------ operations
    def step(self):
        t = self.t
        rows = self.rows
        n = len(rows)
        lens = [len(r) for r in rows]
        was_rect = len(set(lens)) == 1
        ops1d = ('elem', 'row_same', 'row_newlen', 'introw_slice', 'slice2d', 'rowslice_col', 'fancy', 'fancy_int', 'mask', 'rowblock', 'append',
                 'aug', 'binary', 'write_through', 'elem', 'row_same', 'child_write', 'compare', 'divlike', 'bitwise', 'reads2d', 'writes2d', 'helpers', 'iterate_mutating', 'rejected_write', 'stale_mask', 'copied_object')
        opsnd = ('row_same', 'row_newlen', 'append', 'aug', 'binary', 'rowblock', 'iterate_mutating', 'copied_object')
        op = t.choice(ops1d if self.edim is None else opsnd)
        a = self.a
        V = self.vals
        es = () if self.edim is None else (self.edim,)
        if op == 'elem':
            i = t.draw(n)
            j = t.draw(lens[i])
            v = V.take(())
            if self.dtype == 'float64' and self.edim is None and t.flag(1, 10):
                v = np.float64('nan')          # a missing value: unordered under every comparison, equal to nothing
                self.ctx.hit('nan_in_the_data')
            ii = i - n if t.flag(1, 4) else i
            jj = j - lens[i] if t.flag(1, 4) else j
            self.hist.append(('elem', ii, jj))
            self.sut(a.__setitem__, (ii, jj), v)
            rows[i][j] = v
        elif op == 'row_same':
            i = t.draw(n)
            v = V.take((lens[i],) + es)
            form = t.draw(3) if self.edim is None else 0
            if self.dtype == 'int64' and self.edim is None and t.flag(1, 6):
                # values the integer array cannot hold: the row must come back as assigned (the array is promoted)
                v = v.astype(np.float64) + 0.5
                form = 0
                self.ctx.hit('row_assign_wider_dtype')
            self.hist.append(('row_same', i, form))
            self.sut(a.__setitem__, i - n if t.flag(1, 4) else i, v.copy() if form == 0 else (v.tolist() if form == 1 else v))
            rows[i] = v.copy()
            if v.dtype != np.dtype(self.dtype):
                # the array has one element type: it is promoted as a whole and stays promoted
                self.dtype = 'float64'
                self.vals.dtype = np.dtype('float64')
                for k2 in range(len(rows)):
                    rows[k2] = rows[k2].astype(np.float64)
        elif op == 'row_newlen':
            i = t.draw(n)
            L = t.irange(1, 6)
            v = V.take((L,) + es)
            self.hist.append(('row_newlen', i, L))
            self.sut(a.__setitem__, i, v.copy())
            rows[i] = v.copy()
        elif op == 'introw_slice':
            i = t.draw(n)
            L = lens[i]
            if t.flag(1, 3):
                # any slice numpy accepts on the row: negative starts / stops / steps, open ends
                start = t.choice((None, -L, -(1 + t.draw(L)), t.draw(L)))
                stop = t.choice((None, None, -(1 + t.draw(L)), t.draw(L + 1)))
                stp = t.choice((None, 1, 2, -1, -2))
                sl = slice(start, stop, stp)
                if len(rows[i][sl]) == 0:
                    sl = slice(None, None, stp)
                self.ctx.hit('introw_general_slice')
            else:
                lo = t.draw(L)
                hi = t.irange(lo + 1, L)
                stp = 1 if t.flag(3, 4) else 2
                sl = slice(lo, hi, stp) if stp != 1 else slice(lo, hi)
            tgt = rows[i][sl]
            scalar = t.flag(1, 3)
            v = V.take(()) if scalar else V.take(tgt.shape)
            ii = i - n if t.flag(1, 4) else i
            self.hist.append(('introw_slice', ii, str(sl), scalar))
            self.sut(a.__setitem__, (ii, sl), v)
            rows[i][sl] = v
        elif op == 'slice2d':
            r0 = t.draw(n)
            r1 = t.irange(r0 + 1, n)
            allrows = t.flag()
            c0 = t.draw(min(lens))
            c1 = t.irange(c0 + 1, max(lens))
            v = V.take(())
            rs = slice(None) if allrows else slice(r0, r1)
            self.hist.append(('slice2d', 'all' if allrows else (r0, r1), c0, c1))
            self.sut(a.__setitem__, (rs, slice(c0, c1)), v)
            for r in (rows if allrows else rows[r0:r1]):
                r[c0:c1] = v
        elif op == 'rowslice_col':
            r0 = t.draw(n)
            r1 = t.irange(r0 + 1, n)
            sel = list(range(r0, r1))
            minlen = min(lens[i] for i in sel)
            if t.flag(1, 3):
                # a column that some selected row does not have: the write must be rejected and change nothing
                j = minlen + t.draw(2)
                if t.flag() and max(lens[i] for i in sel) > j:
                    pass        # some rows do have it, at least one does not
                v = V.take(())
                self.hist.append(('rowslice_col_out_of_row', r0, r1, j))
                exc = self.ctx.expect_raise(a.__setitem__, (slice(r0, r1), j), v)
                if exc is None:
                    self.bad('out_of_row_write', 'a[%d:%d, %d] = v was accepted although a selected row has only %d elements' % (r0, r1, j, minlen))
                self.ctx.hit('out_of_row_write_rejected')
            else:
                j = t.draw(minlen)
                form = t.draw(3)
                vals = V.take((len(sel),))
                self.hist.append(('rowslice_col', r0, r1, j, form))
                if form == 0:
                    val = [[x] for x in vals]           # the form upstream's tests use
                elif form == 1:
                    val = vals[0]
                    vals = np.repeat(vals[0], len(sel))
                else:
                    val = vals.copy()
                self.sut(a.__setitem__, (slice(r0, r1), j if t.flag() else np.arange(j + 1)[j]), val)
                for i, x in zip(sel, vals):
                    rows[i][j] = x
        elif op == 'fancy':
            k = min(t.irange(1, 3), sum(lens))
            cells = []
            for _try in range(40):
                i = t.draw(n)
                j = t.draw(lens[i])
                if (i, j) not in cells:
                    cells.append((i, j))
                if len(cells) == k:
                    break
            k = len(cells)
            v = V.take((k,))
            ri = np.array([c[0] - (n if t.flag(1, 5) else 0) for c in cells])
            ci = np.array([c[1] for c in cells])
            self.hist.append(('fancy', ri.tolist(), ci.tolist()))
            ri0, ci0 = ri.copy(), ci.copy()
            self.sut(a.__setitem__, (ri, ci), v)
            if not (np.array_equal(ri, ri0) and np.array_equal(ci, ci0)):
                self.bad('index_arrays_modified', 'a[(rows, cols)] = v rewrote the caller\'s index arrays: %s,%s -> %s,%s' %
                         (ri0.tolist(), ci0.tolist(), ri.tolist(), ci.tolist()))
            got = self.sut(a.__getitem__, (ri, ci))
            if not (np.array_equal(ri, ri0) and np.array_equal(ci, ci0)):
                self.bad('index_arrays_modified', 'a[(rows, cols)] rewrote the caller\'s index arrays')
            if not eqv(np.asarray(got).reshape(-1), np.asarray(v).reshape(-1)):
                self.bad('element_differs', 'a[(rows, cols)] read back %s after writing %s' % (np.asarray(got).tolist(), np.asarray(v).tolist()))
            for (i, j), x in zip(cells, v):
                rows[i][j] = x
        elif op == 'fancy_int':
            if t.flag():
                j = t.draw(min(lens))
                pick = sorted({t.draw(n) for _ in range(t.irange(1, 3))})
                v = V.take((len(pick),))
                self.hist.append(('fancy_int', pick, j))
                self.sut(a.__setitem__, (np.array(pick), j), v)
                for i, x in zip(pick, v):
                    rows[i][j] = x
            else:
                i = t.draw(n)
                cols = sorted({t.draw(lens[i]) for _ in range(t.irange(1, 3))})
                v = V.take((len(cols),))
                self.hist.append(('fancy_int', i, cols))
                self.sut(a.__setitem__, (i, np.array(cols)), v)
                for j, x in zip(cols, v):
                    rows[i][j] = x
        elif op == 'mask':
            flat = np.concatenate(rows)
            kind = t.draw(3)
            thr = flat.max() if kind == 0 else flat[t.draw(len(flat))]
            if kind == 0:
                self.ctx.hit('op_mask_empty')      # nothing is above the maximum: an empty mask
            v = V.take(())
            self.hist.append(('mask', float(thr), kind == 0))
            m = self.sut(a.__gt__, thr)
            self.sut(a.__setitem__, m, v)
            for r in rows:
                r[r > thr] = v
        elif op == 'rowblock':
            lo = t.draw(n)
            hi = t.irange(lo + 1, min(n, lo + 3))
            keep = t.flag(2, 3)
            newL = [lens[i] if keep else t.irange(1, 5) for i in range(lo, hi)]
            block = [V.take((L,) + es) for L in newL]
            as_ra = t.flag()
            self.hist.append(('rowblock', lo, hi, newL, as_ra))
            val = self.sut(self.ra.RaggedArray, [b.copy() for b in block]) if as_ra else [b.copy() for b in block]
            if not as_ra and len(set(newL)) == 1 and len(newL) > 1 and self.edim is None:
                val = np.array(val)         # a plain 2-D block of equal-length rows
            self.sut(a.__setitem__, slice(lo, hi), val)
            for k2, b in enumerate(block):
                rows[lo + k2] = b.copy()
        elif op == 'append':
            m = t.irange(1, 3)
            newL = [t.irange(1, 4) for _ in range(m)]
            block = [V.take((L,) + es) for L in newL]
            as_ra = t.flag()
            if self.dtype == 'int64' and self.edim is None and t.flag(1, 5):
                # rows the integer array cannot hold: the whole array is promoted, as np.concatenate would
                block = [b.astype(np.float64) + 0.5 for b in block]
                self.dtype = 'float64'
                self.vals.dtype = np.dtype('float64')
                for k2 in range(len(rows)):
                    rows[k2] = rows[k2].astype(np.float64)
                self.ctx.hit('append_wider_dtype')
            self.hist.append(('append', newL, as_ra, str(block[0].dtype)))
            self.sut(a.append, self.sut(self.ra.RaggedArray, [b.copy() for b in block]) if as_ra else [b.copy() for b in block])
            rows.extend(b.copy() for b in block)
            self.ctx.hit('op_append_ra' if as_ra else 'op_append_rows')
        elif op in ('aug', 'binary'):
            sym = t.choice(('add', 'sub', 'mul'))
            ragged = t.flag(1, 3)
            if ragged:
                orows = [V.take(r.shape) for r in rows]
                other = self.sut(self.ra.RaggedArray, np.concatenate(orows), lengths=[len(r) for r in rows])
                osnap = [r.copy() for r in orows]
            else:
                other = V.take(())
            f = {'add': lambda x, y: x + y, 'sub': lambda x, y: x - y, 'mul': lambda x, y: x * y}[sym]
            before = [r.copy() for r in rows]
            old = a
            self.hist.append((op, sym, 'ragged' if ragged else 'scalar'))
            if op == 'aug':
                if sym == 'add':
                    a += other
                elif sym == 'sub':
                    a -= other
                else:
                    a *= other
                self.ctx.hit('op_aug_ragged' if ragged else 'op_aug_scalar')
                res = a
            else:
                right = t.flag(1, 3) and not ragged
                if right:
                    # a plain Python number on the left (a numpy scalar would hand the operation to numpy's own
                    # array coercion, which the class does not claim to support)
                    other = other.item()
                res = self.sut(f, other, a) if right else self.sut(f, a, other)
                self.ctx.hit('op_binary')
            want = [f(r, (orows[i] if ragged else other)) if not (op == 'binary' and not ragged and right) else f(other, r)
                    for i, r in enumerate(before)]
            if res is old:
                self.bad('operator_returned_operand', '%s %s returned its operand object' % (op, sym))
            self.cmp_rows(res, want, '%s %s' % (op, sym))
            # the operands are untouched
            for i, r in enumerate(before):
                if not eqv(old[i], r):
                    self.bad('operand_modified', '%s %s changed row %d of its left operand' % (op, sym, i))
            if ragged:
                for i, r in enumerate(osnap):
                    if not eqv(other[i], r):
                        self.bad('operand_modified', '%s %s changed row %d of its right operand' % (op, sym, i))
            if op == 'aug':
                self.a = res
                self.rows = [w.copy() for w in want]
            else:
                # the caller edits the result it got back: the operands must not see it
                i = t.draw(n)
                res[i][0] = V.take(()) if self.edim is None else V.take((self.edim,))
                self.ctx.hit('env_result_mutated')
        elif op == 'compare':
            # every comparison operator, against a scalar or another array of the same structure
            import operator as O
            name = t.choice(('lt', 'le', 'gt', 'ge', 'eq', 'ne'))
            f = getattr(O, name)
            ragged = t.flag(1, 3)
            flat = np.concatenate(rows)
            if ragged:
                orows = [r.copy() for r in rows]
                for r in orows:
                    r[t.draw(len(r))] += 1          # equal in some places, different in others
                other = self.sut(self.ra.RaggedArray, np.concatenate(orows), lengths=[len(r) for r in rows])
            else:
                other = flat[t.draw(len(flat))].item()
            self.hist.append(('compare', name, 'ragged' if ragged else 'scalar'))
            before = [r.copy() for r in rows]
            res = self.sut(f, a, other)
            self.cmp_rows(res, [f(r, orows[i] if ragged else other) for i, r in enumerate(before)], 'a %s other' % name)
            if np.asarray(res[0]).dtype != np.bool_:
                self.bad('comparison_differs', 'a %s other has element type %s' % (name, np.asarray(res[0]).dtype))
            if bool(res.any()) != bool(np.any(f(flat, np.concatenate(orows) if ragged else other))):
                self.bad('reduction_differs', 'any() of a %s other' % name)
            self.ctx.hit('op_compare_' + name)
        elif op == 'divlike':
            # division-like and power operators; the divisor is never zero (that is numpy's business, not the container's)
            import operator as O
            name = t.choice(('truediv', 'floordiv', 'mod', 'pow'))
            f = getattr(O, name)
            flat = np.concatenate(rows)
            reflected = t.flag(1, 3) and bool(np.all(flat != 0)) and (name != 'pow' or self.dtype != 'int64' or bool(np.all(flat >= 0)))
            ragged = t.flag(1, 3) and not reflected and name != 'pow'
            if ragged:
                orows = [V.take(r.shape) for r in rows]
                other = self.sut(self.ra.RaggedArray, np.concatenate(orows), lengths=[len(r) for r in rows])
            else:
                other = 2 if name == 'pow' else (V.take(()).item() if not reflected else 7)
            self.hist.append(('divlike', name, 'reflected' if reflected else ('ragged' if ragged else 'scalar')))
            before = [r.copy() for r in rows]
            with np.errstate(all='ignore'):
                res = self.sut(f, other, a) if reflected else self.sut(f, a, other)
                want = [f(other, r) if reflected else f(r, orows[i] if ragged else other) for i, r in enumerate(before)]
            if res is a:
                self.bad('operator_returned_operand', '%s returned its operand object' % name)
            self.cmp_rows(res, want, ('other %s a' if reflected else 'a %s other') % name)
            if np.asarray(res[0]).dtype != want[0].dtype:
                self.bad('dtype_changed', '%s: element type %s, model %s' % (name, np.asarray(res[0]).dtype, want[0].dtype))
            for i, r in enumerate(before):
                if not eqv(a[i], r):
                    self.bad('operand_modified', '%s changed row %d of its operand' % (name, i))
            self.ctx.hit('op_' + name + ('_reflected' if reflected else ''))
        elif op == 'bitwise':
            import operator as O
            name = t.choice(('and_', 'or_', 'xor'))
            f = getattr(O, name)
            flat = np.concatenate(rows)
            if self.dtype == 'int64' and t.flag(1, 3):
                # a comparison result on the left, integers on the right: still the element type's own operator
                thr0 = flat[t.draw(len(flat))]
                m0 = self.sut(O.gt, a, thr0)
                if t.flag():
                    other = t.irange(1, 7)
                    res = self.sut(f, m0, other)
                    want = [f(r > thr0, other) for r in rows]
                else:
                    res = self.sut(f, m0, a)
                    want = [f(r > thr0, r) for r in rows]
                self.hist.append(('bitwise', name, 'mask-with-ints'))
                self.cmp_rows(res, want, '(a > x) %s integers' % name)
                if np.asarray(res[0]).dtype != want[0].dtype:
                    self.bad('dtype_changed', '(a > x) %s integers has element type %s, model %s' % (name, np.asarray(res[0]).dtype, want[0].dtype))
                self.ctx.hit('op_bitwise_mask_with_ints')
            elif self.dtype == 'int64' and t.flag():
                other = t.irange(1, 7)
                self.hist.append(('bitwise', name, 'int', other))
                res = self.sut(f, a, other)
                self.cmp_rows(res, [f(r, other) for r in rows], 'a %s %d' % (name, other))
            else:
                t1, t2 = flat[t.draw(len(flat))], flat[t.draw(len(flat))]
                self.hist.append(('bitwise', name, 'masks'))
                m1, m2 = self.sut(O.gt, a, t1), self.sut(O.le, a, t2)
                res = self.sut(f, m1, m2)
                self.cmp_rows(res, [f(r > t1, r <= t2) for r in rows], '(a > x) %s (a <= y)' % name)
                self.cmp_rows(m1, [r > t1 for r in rows], 'mask operand after %s' % name)
            self.ctx.hit('op_bitwise')
        elif op == 'reads2d':
            # two-index reads that mix a row selection with a column selection
            kind = t.draw(3)
            lo = t.draw(n)
            hi = t.irange(lo + 1, n)
            if kind == 0:
                sel = list(range(lo, hi))
                j = t.draw(min(lens[i] for i in sel))
                if t.flag(1, 3):
                    j = j - min(lens[i] for i in sel)          # counted from the end of each row
                self.hist.append(('reads2d', 'rowslice,int', lo, hi, j))
                got = self.sut(a.__getitem__, (slice(lo, hi), j))
                self.cmp_rows(got, [rows[i][[j]] for i in sel], 'a[%d:%d, %d]' % (lo, hi, j))
            elif kind == 1:
                sel = list(range(lo, hi))
                m = min(lens[i] for i in sel)
                cols = [t.draw(m) for _ in range(t.irange(1, 3))]
                if t.flag(1, 3):
                    k9 = t.draw(len(cols))
                    cols[k9] = cols[k9] - m                    # one column counted from the end of each row
                    self.ctx.hit('negative_column_in_a_list')
                self.hist.append(('reads2d', 'rowslice,list', lo, hi, cols))
                got = self.sut(a.__getitem__, (slice(lo, hi), cols if t.flag() else np.array(cols)))
                self.cmp_rows(got, [rows[i][cols] for i in sel], 'a[%d:%d, %s]' % (lo, hi, cols))
            else:
                sel = [t.draw(n) for _ in range(t.irange(1, 3))]
                m = min(lens[i] for i in sel)
                c0 = t.draw(m)
                c1 = t.irange(c0 + 1, m)
                self.hist.append(('reads2d', 'list,slice', sel, c0, c1))
                got = self.sut(a.__getitem__, (sel if t.flag() else np.array(sel), slice(c0, c1)))
                self.cmp_rows(got, [rows[i][c0:c1] for i in sel], 'a[%s, %d:%d]' % (sel, c0, c1))
            self.ctx.hit('op_reads2d')
        elif op == 'writes2d':
            kind = t.draw(2)
            if kind == 0:
                lo = t.draw(n)
                hi = t.irange(lo + 1, n)
                sel = list(range(lo, hi))
                m = min(lens[i] for i in sel)
                cols = sorted({t.draw(m) for _ in range(t.irange(1, 3))})
                if t.flag(1, 3) and len(set(lens[i] for i in sel)) == 1:
                    cols = [c - m for c in cols]               # counted from the end (rows of one length: no two names for one cell)
                scalar = t.flag()
                v = V.take(()) if scalar else V.take((len(sel), len(cols)))
                self.hist.append(('writes2d', 'rowslice,list', lo, hi, cols, scalar))
                self.sut(a.__setitem__, (slice(lo, hi), cols), v if scalar else [list(x) for x in v])
                for k2, i in enumerate(sel):
                    rows[i][cols] = v if scalar else v[k2]
            else:
                sel = sorted({t.draw(n) for _ in range(t.irange(1, 3))})
                m = min(lens[i] for i in sel)
                c0 = t.draw(m)
                c1 = t.irange(c0 + 1, m)
                scalar = t.flag()
                v = V.take(()) if scalar else V.take((len(sel), c1 - c0))
                self.hist.append(('writes2d', 'list,slice', sel, c0, c1, scalar))
                self.sut(a.__setitem__, (sel, slice(c0, c1)), v if scalar else [list(x) for x in v])
                for k2, i in enumerate(sel):
                    rows[i][c0:c1] = v if scalar else v[k2]
            self.ctx.hit('op_writes2d')
        elif op == 'helpers':
            z = self.sut(self.ra.zeros_like, a)
            self.cmp_rows(z, [np.zeros_like(r) for r in rows], 'zeros_like(a)')
            if np.asarray(z[0]).dtype != rows[0].dtype:
                self.bad('dtype_changed', 'zeros_like: %s for %s' % (np.asarray(z[0]).dtype, rows[0].dtype))
            z[0][0] = V.take(())                  # the caller fills it in: a must not notice
            flat = np.concatenate(rows)
            thr = flat[t.draw(len(flat))]
            wr, wc = self.sut(self.ra.where, self.sut(a.__gt__, thr))
            want = [(i, j) for i, r in enumerate(rows) for j in np.where(r > thr)[0]]
            if [(int(x), int(y)) for x, y in zip(wr, wc)] != want:
                self.bad('where_differs', 'where(a > %s) = %s, model %s' % (thr, list(zip(np.asarray(wr).tolist(), np.asarray(wc).tolist())), want))
            txt = self.sut(repr, a) + self.sut(str, a)
            if not isinstance(txt, str) or not txt:
                self.bad('repr_empty', 'repr / str returned %r' % (txt,))
            self.hist.append(('helpers', float(thr)))
            self.ctx.hit('op_helpers')
        elif op == 'iterate_mutating':
            # the array changes while a loop over its rows is under way: like a list of rows, the loop sees the rows as they
            # are when it gets to them, and rows appended meanwhile as well
            it = iter(a)
            model_it = iter(rows)
            seen, want = [], []
            k0 = t.draw(n)
            for _ in range(k0):
                seen.append(np.array(next(it)))
                want.append(np.array(next(model_it)))
            what = t.draw(3)
            if what == 0 and k0 < n:
                i = t.irange(k0, n - 1)
                v = V.take((lens[i],) + es)
                self.sut(a.__setitem__, i, v.copy())
                rows[i] = v.copy()
                self.hist.append(('iterate_mutating', k0, 'replace', i))
            elif what == 1:
                b = V.take((t.irange(1, 3),) + es)
                self.sut(a.append, [b.copy()])
                rows.append(b.copy())
                self.hist.append(('iterate_mutating', k0, 'append'))
            else:
                i = t.draw(n)
                j = t.draw(lens[i])
                v = V.take(()) if self.edim is None else V.take((self.edim,))
                self.sut(a.__setitem__, (i, j), v)
                rows[i][j] = v
                self.hist.append(('iterate_mutating', k0, 'elem', i, j))
            for x in it:
                seen.append(np.array(x))
                if len(seen) > 50:
                    break
            for x in model_it:
                want.append(np.array(x))
            if len(seen) != len(want) or any(not eqv(x, y) for x, y in zip(seen, want)):
                self.bad('iteration_differs', 'a loop over the rows during which the array changed saw %s, a list of rows shows %s' %
                         ([np.asarray(x).tolist() for x in seen], [np.asarray(x).tolist() for x in want]))
            self.ctx.hit('op_iterate_mutating')
        elif op == 'stale_mask':
            # a comparison result kept from earlier is used as an index after the array changed its row lengths: it is a ragged
            # array of booleans with its OWN layout, so cell (r, c) of the mask addresses cell (r, c) of the array - where all of
            # its True cells still exist.  An implementation may also refuse a mask of another layout (then nothing may change).
            if self.kept_mask is None or t.flag(1, 3):
                flat = np.concatenate(rows)
                thr = flat[t.draw(len(flat))]
                self.kept_mask = (self.sut(a.__gt__, thr), [r > thr for r in rows])
                self.hist.append(('stale_mask', 'taken', float(thr)))
            else:
                mobj, mrows = self.kept_mask
                if len(mrows) == n and self.edim is None and t.flag():
                    # two rows trade lengths: the layout differs from the mask's, the total number of elements does not
                    pairs = [(i, j) for i in range(n) for j in range(i + 1, n) if lens[i] != lens[j] and len(mrows[i]) == lens[i] and len(mrows[j]) == lens[j]
                             and not mrows[i][min(lens[i], lens[j]):].any() and not mrows[j][min(lens[i], lens[j]):].any()]
                    if pairs:
                        i, j = pairs[t.draw(len(pairs))]
                        for x, L in ((i, lens[j]), (j, lens[i])):
                            v = V.take((L,))
                            self.sut(a.__setitem__, x, v.copy())
                            rows[x] = v.copy()
                        lens = [len(r) for r in rows]
                        self.ctx.hit('rows_traded_lengths')
                cells = [(r_, int(c_)) for r_, mr in enumerate(mrows) for c_ in np.where(mr)[0]]
                ok = bool(cells) and all(r_ < n and c_ < lens[r_] for r_, c_ in cells)
                self.hist.append(('stale_mask', 'used', len(cells), ok))
                if ok:
                    if [len(mr) for mr in mrows] != lens:
                        self.ctx.hit('mask_of_another_layout')
                    try:
                        got = a[mobj]
                    except Exception:       # noqa: refusing a mask of another layout is legitimate
                        got = None
                        self.ctx.count('mask_of_another_layout_refused')
                    if got is not None:
                        want = np.array([rows[r_][c_] for r_, c_ in cells])
                        if not eqv(np.asarray(got).reshape(-1), want.reshape(-1)):
                            self.bad('mask_read_differs', 'a[mask kept from earlier] = %s, cells (row, column) of the mask give %s' %
                                     (np.asarray(got).tolist(), want.tolist()))
                        v = V.take(())
                        self.sut(a.__setitem__, mobj, v)
                        for r_, c_ in cells:
                            rows[r_][c_] = v
            self.ctx.hit('op_stale_mask')
        elif op == 'copied_object':
            # the array travels: through pickle (to another process and back), deepcopy or copy.copy.  What arrives is a ragged
            # array like any other - the history goes on with the copy, and the original no longer sees it
            import copy
            import pickle
            how = t.choice(('pickle', 'deepcopy', 'copy'))
            self.hist.append(('copied_object', how))
            try:
                b = {'pickle': lambda o: pickle.loads(pickle.dumps(o)), 'deepcopy': copy.deepcopy, 'copy': copy.copy}[how](a)
            except Exception:       # noqa: not being copyable is not what is checked
                self.ctx.count('array_not_copyable')
                return
            if how != 'copy':
                old_first = np.array(a[0])
                b[0][0] = V.take(()) if self.edim is None else V.take((self.edim,))
                if not eqv(a[0], old_first):
                    self.bad('copy_aliases_original', 'a write into a %s of the array changed the array itself' % how)
                b[0][0] = rows[0][0]
                self.a = b
            self.ctx.hit('op_copied_object')
        elif op == 'rejected_write':
            # a row assignment the array cannot take (a bare number where a row is expected): whatever is raised, nothing changes
            i = t.draw(n)
            self.hist.append(('rejected_write', i))
            if n < 2:
                return          # with a single row there is nothing the value could be inconsistent with
            exc = self.ctx.expect_raise(a.__setitem__, i, V.take(()).item())
            if exc is None:
                # accepted by this implementation: what that means is not defined by the model - the history ends here
                self.ctx.count('bare_number_row_accepted')
                self.stop = True
                return
            self.ctx.hit('op_rejected_write')
        elif op == 'child_write':
            # a row selection is an array of its own: the caller writes into it, then into the parent; neither sees the other's write
            kind = t.draw(4)
            if kind == 0:
                lo = t.draw(n)
                sel = slice(lo, t.irange(lo + 1, n))
            elif kind == 1:
                sel = slice(None, None, 2)
            elif kind == 2:
                sel = slice(None)
            else:
                sel = sorted({t.draw(n) for _ in range(t.irange(1, 3))})
            idx = list(range(n))[sel] if isinstance(sel, slice) else sel
            child = self.sut(a.__getitem__, sel)
            cm = [rows[i].copy() for i in idx]
            self.hist.append(('child_write', str(sel)))
            v = V.take(())
            if t.flag():
                self.sut(child.__setitem__, (0, 0), v)
            else:
                child[0][0] = v
            cm[0][0] = v
            self.cmp_rows(child, cm, 'selection %s after a write into it' % (sel,))
            i = idx[t.draw(len(idx))]
            j = t.draw(lens[i])
            w = V.take(())
            self.sut(a.__setitem__, (i, j), w)
            rows[i][j] = w
            self.cmp_rows(child, cm, 'selection %s after a write into the array it was taken from' % (sel,))
            self.ctx.hit('env_selection_mutated')
        elif op == 'write_through':
            i = t.draw(n)
            j = t.draw(lens[i])
            v = V.take(())
            self.hist.append(('write_through', i, j))
            r = self.sut(a.__getitem__, i)
            r[j] = v
            rows[i][j] = v
            self.ctx.hit('env_write_through')
        if op not in ('binary', 'compare', 'divlike', 'bitwise', 'reads2d', 'helpers'):
            self.mutations += 1
        if op not in ('append', 'aug', 'binary', 'write_through', 'child_write', 'compare', 'divlike', 'bitwise', 'reads2d', 'writes2d', 'helpers',
                      'iterate_mutating', 'rejected_write', 'stale_mask', 'copied_object'):
            self.ctx.hit('op_' + op)
        nl = [len(r) for r in self.rows]
        now_rect = len(set(nl)) == 1
        if was_rect and not now_rect:
            self.ctx.hit('rect_to_ragged')
        if not was_rect and now_rect and len(nl) > 1:
            self.ctx.hit('ragged_to_rect')
        self.observe('after %s' % (self.hist[-1],))


def scenario(ctx):
    m = Machine(ctx)
    m.construct()
    n_ops = ctx.tape.irange(1, 30 if ctx.tape.flag(1, 3) else 8)
    for _ in range(n_ops):
        m.step()
        if m.stop:
            break
    ctx.scenario['history'] = [str(h) for h in m.hist[:40]]
    ctx.fp(tuple(map(str, m.hist)))
    if m.mutations >= 2:
        ctx.nontrivial = True
