"""C09 — k-medoids refinement never worsens the cost and keeps centres in the data.

Sweep histories driven from the tape (which member is proposed for which
cluster in which sweep, or a seed), serial and on N simulated ranks (cost via
allreduce with seeded association order); reproducibility under perturbed
global RNG state, interleaved unrelated calls and poisoned heap.
"""
import numpy as np

from ..core.run import require
from ..engines.simmpi import SimViolation
from ..models import cluster as M
from . import clcommon as C
from . import clrun

ID = 'C09'
RULE = ('Each run draws a setting (serial / 2..6 simulated ranks with rank schedule, eager roots, allreduce '
        'association order, heap poison), data, metric, a k-centers start state, and a history of 1..6 sweeps, each '
        'either one explicit proposal (cluster, member) or a seeded random sweep; or a whole k-hybrid / k-medoids call '
        'with n_iters = 0..5 under one seed; or a reproducibility experiment (same call twice with unrelated calls, '
        'global-RNG draws and a different heap poison in between). Non-trivial: >= 2 clusters and >= 1 real proposal '
        'processed; In the thorough tier a quarter of the runs use deeper bounds (up to 10-12 ranks, 120-150 frames, 30-36 trajectories, 16 centres). distinct = digest of configuration, data, proposal history and schedule.')
BUDGET = {'quick': dict(runs=3000, wall_s=55, chunk=25), 'thorough': dict(runs=60000, wall_s=780, chunk=50)}
COMPONENTS = {'real': ['enspara.cluster.kmedoids (_kmedoids_pam_update, proposer, input tree)', 'enspara.cluster.hybrid',
                       'enspara.mpi.ops (randind, distribute_frame, striped_array_mean)', 'compiled libdist kernels'],
              'stub': ['MPI library (simmpi)', 'heap allocator (simalloc)']}
ASSUMPTIONS = ['for md.Trajectory data the metric model is mdtraj.rmsd itself on the whole data set; two evaluations of one RMSD may differ by sqrt(d^2 + 2e-4) - d (the float32 routine evaluated on frames already moved to their centroid, or in another batch; measured up to 1e-5 in the mean squared deviation, heavy-tailed), reported values are compared with that allowance, near-ties inside it make a scenario not tie-free, and because mdtraj.rmsd moves the frames it is given to their centroid in place, centres and the caller\'s data are compared up to that translation', 'cost comparisons allow 4*n ulp (the library and the model may sum in different orders; under MPI the '
               'reduction order is legitimately free)', 'explicit proposals are members of the cluster being updated',
               'zero sweeps are requested through k-hybrid, which supports it, not through kmedoids(n_iters=0)']
REACH_EXPECTED = ['rmsd_trajectory_data', 'seed_via_set_params', 'estimator_warm_start_sweep', 'estimator_reproducibility', 'per_rank_generators', 'proposal_accepted', 'proposal_rejected', 'mpi_run', 'random_sweep', 'hybrid_cost_sequence',
                  'reproducibility_checked', 'reproducible_across_poison', 'warm_centres_only', 'warm_labels_only',
                  'cold_start_sequence', 'empty_cluster_share_on_rank']


_LE_RTOL = [0.0]


def le(a, b, n):
    return a <= b * (1 + 4 * n * np.finfo(float).eps + _LE_RTOL[0]) + 1e-300


def model_cost(P, g):
    """mean squared distance of every frame to the centre it is assigned to, recomputed by the float64 model from the
    returned centre indices and labels (not from the distances the library reports)"""
    lab = np.asarray(g.labels).astype(int)
    if lab.min() < 0 or lab.max() >= len(g.ci):
        raise SimViolation('label_out_of_range', 'labels in [%d, %d] with %d centres' % (lab.min(), lab.max(), len(g.ci)))
    D = np.array([P.model_metric(P.X, P.X[c]) for c in g.ci])
    d = D[lab, np.arange(P.n)]
    return float(np.mean(d * d))


def le_model(a, b, P):
    return a <= b * (1 + M.rtol_for(P.dtype) * 8) + 1e-300


def centres_are_frames(P, g, where):
    require(len(g.ci) == len(g.centers), 'center_count_mismatch', where)
    for i, c in enumerate(g.ci):
        require(0 <= c < P.n, 'center_index_out_of_data', lambda: '%s centre %d index %d of %d frames' % (where, i, c, P.n))
        require(M.frame_equal(P.metric_name, g.centers[i], P.X[c]), 'center_not_frame',
                lambda: '%s centre %d coordinates %s are not frame %d %s' % (where, i, g.centers[i], c, P.X[c]))
    require(len(set(g.ci)) == len(g.ci), 'duplicate_center', lambda: '%s centres %s' % (where, g.ci))


def scenario(ctx):
    t = ctx.tape
    e = C.E()
    mpi = t.flag(2, 5)
    deep = ctx.tier == 'thorough' and t.flag(1, 4)
    P = C.Problem(ctx, want_ranks=mpi, max_ranks=10 if deep else 6, max_frames=120 if deep else 48, max_traj=30 if deep else 24,
                  max_len=12 if deep else 9, allow_rmsd=True)
    if P.N == 1:
        mpi = False
    k, cutoff = P.draw_stop(ctx)
    case = t.choice(('history', 'history', 'history', 'hybrid_seq', 'repro', 'cold_seq', 'warm_forms'))
    if mpi and case in ('cold_seq', 'warm_forms'):
        case = 'history'
    poison = t.draw(7) if (mpi and t.flag()) else 0
    ctx.scenario.update(P.describe(), setting='mpi' if mpi else 'serial', case=case, n_clusters=k, dist_cutoff=cutoff,
                        poison=poison)
    ctx.fp('c09', mpi, P.N, tuple(P.lengths), P.dtype, P.metric_name, case, k, cutoff, P.X.tobytes())
    # reported RMSD values carry batch-dependent last bits: costs built from them are compared to 2e-3 (an error of 2e-4 in a mean squared deviation of O(0.1))
    _LE_RTOL[0] = 2e-3 if P.metric_name == 'rmsd' else 0.0
    if mpi:
        ctx.hit('mpi_run')

    def run(sp, suffix='', pz=None):
        if mpi:
            return clrun.run_mpi(ctx, e, P, sp, poison=poison if pz is None else pz, suffix=suffix)
        return clrun.run_serial(ctx, e, P, sp, poison=pz or 0)

    n = P.n
    if case == 'history':
        g0 = run(dict(algo='kcenters', form='function', k=k, cutoff=cutoff), suffix='0')
        st = clrun.State.of(g0)
        K = len(st.ci)
        hist = []
        mcost = model_cost(P, g0)
        for s in range(t.irange(1, 6)):
            use_random = t.flag(1, 3)
            if use_random:
                extra = dict(random_state=t.draw(1000))
                if mpi and t.flag():
                    extra['per_rank_rng'] = True
                    ctx.hit('per_rank_generators')
                if not mpi and t.flag(1, 3):
                    # the estimator object: it has no seed argument (draws from numpy's global state), and may be told the
                    # number of clusters although the warm start already fixes it
                    extra['form'] = 'estimator'
                    extra['est_n_clusters'] = K if t.flag() else None
                    np.random.seed(extra['random_state'])
                    ctx.hit('estimator_warm_start_sweep')
                ctx.hit('random_sweep')
                hist.append(('random', extra['random_state']))
            else:
                cid = t.draw(K)
                members = np.where(st.labels == cid)[0]
                p = int(members[t.draw(len(members))])
                props = list(st.ci)
                props[cid] = p
                extra = dict(proposals=props)
                hist.append(('propose', cid, p))
                if mpi and any(not np.any(st.labels[P.l2g[r]] == cid) for r in range(P.N)):
                    ctx.hit('empty_cluster_share_on_rank')
            if mpi and use_random:
                for cid2 in range(K):
                    if any(not np.any(st.labels[P.l2g[r]] == cid2) for r in range(P.N)):
                        ctx.hit('empty_cluster_share_on_rank')
                        break
            g = clrun.one_sweep(ctx, e, P, st, extra, mpi, poison=poison, cinds_form=t.draw(3), suffix='s%d' % s)
            centres_are_frames(P, g, 'sweep %d:' % s)
            require(len(g.ci) == K, 'cluster_count_changed', lambda: 'sweep %d: %d -> %d clusters' % (s, K, len(g.ci)))
            c0, c1 = st.cost(), M.cost(g.distances)
            require(le(c1, c0, n), 'cost_increased', lambda: 'sweep %d (%s): cost %.17g -> %.17g' % (s, hist[-1], c0, c1))
            m1 = model_cost(P, g)
            require(le_model(m1, mcost, P), 'cost_increased', lambda: 'sweep %d (%s): true cost of the returned centres and labels '
                    '%.17g -> %.17g (reported distances say %.17g -> %.17g)' % (s, hist[-1], mcost, m1, c0, c1))
            mcost = m1
            if not use_random:
                ctx.hit('proposal_accepted' if g.ci != st.ci else 'proposal_rejected')
                if len(st.ci) >= 2 and p != st.ci[cid]:
                    ctx.nontrivial = True
            elif K >= 2:
                ctx.nontrivial = True
            st = clrun.State.of(g)
            ctx.steps += 1
        ctx.scenario['history'] = [list(h) for h in hist]
        ctx.fp(tuple(hist))
        return

    if case == 'hybrid_seq':
        rseed = 0 if t.flag(1, 8) else t.draw(1000)        # zero is a seed like any other
        T = t.irange(1, 5)
        form = 'estimator' if t.flag(1, 4) else 'function'
        late = (1 + t.draw(2)) if (form == 'estimator' and t.flag(1, 3)) else 0
        prr = mpi and form == 'function' and t.flag()
        if prr:
            ctx.hit('per_rank_generators')
        costs = []
        mcosts = []
        K0 = None
        for it in range(0, T + 1):
            g = run(dict(algo='hybrid', form=form, k=k, cutoff=cutoff, n_iters=it, random_state=rseed, per_rank_rng=prr, late_params=late), suffix=str(it))
            centres_are_frames(P, g, 'k-hybrid n_iters=%d:' % it)
            if K0 is None:
                K0 = len(g.ci)
            require(len(g.ci) == K0, 'cluster_count_changed', lambda: 'n_iters=%d: %d clusters, k-centers gave %d' % (it, len(g.ci), K0))
            costs.append(M.cost(g.distances))
            mcosts.append(model_cost(P, g))
            require(le_model(mcosts[-1], mcosts[0], P), 'hybrid_worse_than_kcenters', lambda: 'k-hybrid n_iters=%d true cost %.17g > '
                    'k-centers cost %.17g' % (it, mcosts[-1], mcosts[0]))
            if form == 'function' and it >= 1:
                require(le_model(mcosts[-1], mcosts[-2], P), 'cost_increased', lambda: 'n_iters %d -> %d: true cost %.17g -> %.17g' %
                        (it - 1, it, mcosts[-2], mcosts[-1]))
            require(le(costs[-1], costs[0], n), 'hybrid_worse_than_kcenters',
                    lambda: 'k-hybrid n_iters=%d cost %.17g > k-centers cost %.17g' % (it, costs[-1], costs[0]))
            if form == 'function' and it >= 1:
                # same seed => the run with one sweep more continues the shorter run
                require(le(costs[-1], costs[-2], n), 'cost_increased', lambda: 'n_iters %d -> %d: cost %.17g -> %.17g' %
                        (it - 1, it, costs[-2], costs[-1]))
        ctx.scenario.update(n_iters=T, random_state=rseed, costs=costs, form=form)
        ctx.hit('hybrid_cost_sequence')
        if K0 >= 2:
            ctx.nontrivial = True
        ctx.steps += T
        return

    if case == 'cold_seq':
        rseed = 0 if t.flag(1, 8) else t.draw(1000)        # zero is a seed like any other
        kk = t.irange(1, min(6, P.n))
        T = t.irange(2, 5)
        costs = []
        mcosts = []
        for it in range(1, T + 1):
            g = run(dict(algo='kmedoids', form='function', k=kk, n_iters=it, random_state=rseed), suffix=str(it))
            centres_are_frames(P, g, 'cold k-medoids n_iters=%d:' % it)
            require(len(g.ci) == kk, 'cluster_count_changed', lambda: 'asked %d clusters, got %d' % (kk, len(g.ci)))
            costs.append(M.cost(g.distances))
            mcosts.append(model_cost(P, g))
            if it >= 2:
                require(le_model(mcosts[-1], mcosts[-2], P), 'cost_increased', lambda: 'cold start, n_iters %d -> %d: true cost %.17g -> %.17g'
                        % (it - 1, it, mcosts[-2], mcosts[-1]))
            if it >= 2:
                require(le(costs[-1], costs[-2], n), 'cost_increased', lambda: 'cold start, n_iters %d -> %d: cost %.17g -> %.17g'
                        % (it - 1, it, costs[-2], costs[-1]))
        ctx.hit('cold_start_sequence')
        ctx.scenario.update(n_iters=T, random_state=rseed, n_clusters=kk, costs=costs)
        if kk >= 2:
            ctx.nontrivial = True
        return

    if case == 'warm_forms':
        # a supplied consistent state in each accepted spelling carries the guarantees over
        g0 = run(dict(algo='kcenters', form='function', k=k, cutoff=cutoff))
        st = clrun.State.of(g0)
        K = len(st.ci)
        rseed = 0 if t.flag(1, 8) else t.draw(1000)        # zero is a seed like any other
        n_iters = t.irange(1, 3)
        which = t.draw(3)
        if which == 0:
            warm = (None, None, list(st.ci))
            ctx.hit('warm_centres_only')
        elif which == 1:
            warm = (st.labels.copy(), st.distances.copy(), None)
            ctx.hit('warm_labels_only')
        else:
            warm = (st.labels.copy(), st.distances.copy(), list(st.ci))
        spec = dict(algo='kmedoids', form='function', n_iters=n_iters, warm=warm, random_state=rseed)
        g = clrun.run_serial(ctx, e, P, spec)
        centres_are_frames(P, g, 'warm start (%d):' % which)
        require(len(g.ci) == K, 'cluster_count_changed', lambda: 'warm start: %d -> %d clusters' % (K, len(g.ci)))
        require(le(M.cost(g.distances), st.cost(), n), 'cost_increased', lambda: 'warm start form %d: cost %.17g -> %.17g' %
                (which, st.cost(), M.cost(g.distances)))
        ctx.scenario.update(warm_form=which, n_iters=n_iters, random_state=rseed)
        if K >= 2:
            ctx.nontrivial = True
        return

    # ---- reproducibility
    rseed = 0 if t.flag(1, 8) else t.draw(1000)        # zero is a seed like any other
    n_iters = t.irange(1, 4)
    if not mpi and t.flag(1, 4):
        # estimator form: two objects built from the same seed give the same clustering; a second fit() of one object on
        # the same data must still satisfy the cost guarantee (its generator has moved on, so it need not be identical)
        specE = dict(algo='hybrid', form='estimator', k=k, cutoff=cutoff, n_iters=n_iters, random_state=rseed,
                     seed_via_set_params=t.flag())
        if specE['seed_via_set_params']:
            ctx.hit('seed_via_set_params')
        a = run(specE, suffix='ea')
        np.random.seed(t.draw(2 ** 31 - 1))
        np.random.rand(1 + t.draw(10))
        b = run(specE, suffix='eb')
        require(a.key() == b.key(), 'not_reproducible', lambda: 'two KHybrid objects with random_state=%d disagree: centres %s vs %s' %
                (rseed, a.ci, b.ci))
        est = b.est
        base = run(dict(algo='kcenters', form='function', k=k, cutoff=cutoff))
        ctx.sut(est.fit, P.wrap(P.X.copy()))
        g2 = clrun.GResult(est.center_indices_, est.centers_, est.labels_, est.distances_)
        centres_are_frames(P, g2, 'second fit of one KHybrid object:')
        require(le_model(model_cost(P, g2), model_cost(P, base), P), 'hybrid_worse_than_kcenters',
                lambda: 'second fit() of the same KHybrid object: cost %.17g > k-centers cost %.17g' % (model_cost(P, g2), model_cost(P, base)))
        require(len(g2.ci) == len(base.ci), 'cluster_count_changed', 'second fit changed the number of clusters')
        ctx.hit('estimator_reproducibility')
        if len(a.ci) >= 2:
            ctx.nontrivial = True
        return
    use_props = t.flag(1, 3) and not mpi
    if use_props:
        g0 = run(dict(algo='kcenters', form='function', k=k, cutoff=cutoff))
        st = clrun.State.of(g0)
        props = []
        for cid in range(len(st.ci)):
            members = np.where(st.labels == cid)[0]
            props.append(int(members[t.draw(len(members))]) if cid == 0 else st.ci[cid])
        spec = dict(algo='kmedoids', form='function', n_iters=1, warm=(st.labels.copy(), st.distances.copy(), list(st.ci)),
                    proposals=props)
    else:
        algo = 'hybrid' if (mpi or t.flag()) else 'kmedoids'
        spec = dict(algo=algo, form='function', k=k if algo == 'hybrid' else t.irange(1, min(6, P.n)), cutoff=cutoff,
                    n_iters=n_iters, random_state=rseed)
    a = run(spec, suffix='a', pz=poison)
    # perturb everything a correct routine must not depend on
    np.random.seed(t.draw(2 ** 31 - 1))
    np.random.rand(1 + t.draw(20))
    if t.flag():
        run(dict(algo='kcenters', form='function', k=2, cutoff=None), suffix='x')
    pz2 = (poison + 1 + t.draw(5)) % 7
    b = run(spec, suffix='b', pz=pz2)
    require(a.key() == b.key(), 'not_reproducible', lambda: 'same arguments, different outcome: centres %s vs %s' % (a.ci, b.ci))
    ctx.hit('reproducibility_checked')
    if pz2 != poison:
        ctx.hit('reproducible_across_poison')
    ctx.scenario.update(spec={kk: (vv if not isinstance(vv, (tuple, np.ndarray)) else '...') for kk, vv in spec.items()})
    if len(a.ci) >= 2:
        ctx.nontrivial = True
