"""C10 — nearest-centre assignment and per-trajectory bookkeeping are exact.

Batch reassignment runs on simpool (simulated worker processes for loading,
simulated joblib for sounding, simulated machine memory so that 1..n batches
occur) with tape-chosen worker counts, dispatch/completion orders and batch
boundaries; the partition step is evaluated at the end of serial and simulated
MPI clustering runs; predict / assign / centre finding on drawn data.
"""
import contextlib
import os

import numpy as np

from ..core.run import require
from ..engines import simpool
from ..engines.simmpi import SimViolation
from ..models import cluster as M
from . import clcommon as C
from . import clrun
from .c15 import note_pool

ID = 'C10'
RULE = ('Each run draws one of: (a) cluster.util.reassign on generated trajectory files (1..2 topologies, 1..4 files each, '
        'lengths 1..8, atom selections, 1..5 centres given as one trajectory or a list) with simulated worker processes, '
        'simulated joblib, a simulated machine memory size that yields 1..n batches, and tape-chosen dispatch/completion order; '
        '(b) the partition step (ClusterResult.partition, partition_indices, partition_list) at the end of a serial or '
        'simulated-MPI clustering run with drawn trajectory lengths (equal/unequal, length-1) ; (c) predict / '
        'assign_to_nearest_center (fewer or more centres than frames, arrays or trajectories) / find_cluster_centers. '
        'Non-trivial: >= 2 batches or >= 2 pool chunks or >= 2 ranks or >= 2 trajectories were involved; distinct = digest of '
        '(configuration, data, schedule).')
BUDGET = {'quick': dict(runs=1500, wall_s=55, chunk=20), 'thorough': dict(runs=40000, wall_s=780, chunk=40)}
COMPONENTS = {'real': ['enspara.cluster.util (reassign, batch_reassign, compute_batches, determine_batch_size, assign_to_nearest_center, '
                       'find_cluster_centers, ClusterResult.partition, predict)', 'enspara.ra.partition_indices/partition_list',
                       'enspara.util.load', 'mdtraj (readers, rmsd)', 'enspara.mpi.ops reassembly'],
              'stub': ['multiprocessing (simpool)', 'joblib.Parallel/delayed (simulated on simpool)', 'psutil.virtual_memory (drawn size)',
                       'auto_nprocs (drawn)', 'MPI library (simmpi)']}
ASSUMPTIONS = ['RMSD values are compared with a float64 Kabsch RMSD; the allowed deviation is an error model of the float32 computation '
               '(4096 eps32 x summed squared coordinates per atom, propagated through the square root); minimality is demanded up to that '
               'tolerance; ties may be broken either way',
               'the simulated memory always leaves room for the longest file plus one frame (the equality case is outside the statement)']
REACH_EXPECTED = ['predict_on_trajectory', 'multi_batch_reassign', 'single_batch_reassign', 'centers_as_trajectory', 'centers_as_list', 'two_topologies',
                  'ragged_reassign_output', 'square_reassign_output', 'partition_square', 'partition_ragged', 'partition_after_mpi',
                  'length1_trajectory', 'center_on_first_frame', 'center_on_last_frame', 'more_centers_than_frames', 'predict_new_data', 'predict_after_refit', 'caller_edits_labels_']


def rmsd64(X, c):
    """optimal-superposition RMSD in float64 (Kabsch); X: (n, atoms, 3), c: (atoms, 3).  Returns (rmsd, tol) per frame,
    where tol bounds what a float32 implementation of the same quantity may deviate: the mean squared deviation is a
    difference of O(G) terms (G = summed squared centred coordinates per atom), so its float32 error is up to ~ 4096 eps32 G (mdtraj finds the leading eigenvalue by Newton iteration in float32) and
    the error of its square root is that divided by 2 rmsd (or its square root, near zero)."""
    X = np.asarray(X, dtype=np.float64)
    c = np.asarray(c, dtype=np.float64)
    c = c - c.mean(axis=0)
    Gc = (c * c).sum()
    out = np.zeros(len(X))
    tol = np.zeros(len(X))
    N = c.shape[0]
    for i, x in enumerate(X):
        x = x - x.mean(axis=0)
        Gx = (x * x).sum()
        H = x.T @ c
        U, S, Vt = np.linalg.svd(H)
        d = np.sign(np.linalg.det(U @ Vt))
        tr = S[0] + S[1] + d * S[2]
        msd = max(0.0, (Gx + Gc - 2 * tr) / N)
        out[i] = np.sqrt(msd)
        delta = 4096 * np.finfo(np.float32).eps * (Gx + Gc) / N
        tol[i] = np.sqrt(msd + delta) - out[i] + 1e-6
    return out, tol


def scenario(ctx):
    t = ctx.tape
    fam = t.draw(10)
    if fam < 4:
        fam_reassign(ctx)
    elif fam < 7:
        fam_partition(ctx)
    else:
        fam_assign(ctx)


# ------------------------------------------------------------------ (a) batch reassignment
def make_top(n_res, with_o):
    import mdtraj as md
    top = md.Topology()
    ch = top.add_chain()
    for r in range(n_res):
        res = top.add_residue('ALA', ch)
        top.add_atom('N', md.element.nitrogen, res)
        top.add_atom('CA', md.element.carbon, res)
        top.add_atom('C', md.element.carbon, res)
        if with_o:
            top.add_atom('O', md.element.oxygen, res)
    return top


class FakeParallel:
    """joblib.Parallel on the simulated pool: results in submission order, execution in tape order"""

    def __init__(self, sim, n_jobs=None, **kw):
        self.sim = sim
        self.n_jobs = n_jobs

    def __call__(self, tasks):
        tasks = list(tasks)
        pool = simpool.SimPool(self.sim, processes=self.n_jobs if (self.n_jobs or 0) > 0 else None)
        res = pool.starmap(_apply_delayed, [(f, a, k) for f, a, k in tasks])
        pool.close()
        pool.join()
        return res


def _apply_delayed(f, a, k):
    return f(*a, **k)


def fake_delayed(f):
    def wrap(*a, **k):
        return (f, a, k)
    return wrap


class FakePsutil:
    def __init__(self, total):
        self._total = total

    def virtual_memory(self):
        class M_:
            total = self._total
        return M_()


@contextlib.contextmanager
def reassign_seams(ctx, sim, total_mem, nprocs):
    from enspara.cluster import util as U
    old = (U.Parallel, U.delayed, U.psutil, U.auto_nprocs)
    U.Parallel = lambda n_jobs=None, **kw: FakeParallel(sim, n_jobs)
    U.delayed = fake_delayed
    U.psutil = FakePsutil(total_mem)
    U.auto_nprocs = lambda: nprocs
    try:
        yield
    finally:
        U.Parallel, U.delayed, U.psutil, U.auto_nprocs = old


def fam_reassign(ctx):
    import mdtraj as md
    from enspara.cluster import util as U
    t = ctx.tape
    n_res = t.irange(2, 4)
    two = t.flag(1, 3)
    tops = [make_top(n_res, False)] + ([make_top(n_res, True)] if two else [])
    if two:
        ctx.hit('two_topologies')
    selection = t.choice(('name CA or name C', 'name N or name CA or name C', 'name CA or name N'))
    d = ctx.scratch()
    rs = np.random.RandomState(t.draw(2 ** 31 - 1))
    topfiles, trjsets, loaded = [], [], []
    equal_len = t.flag(1, 4)
    L0 = t.irange(1, 8)
    for ti, top in enumerate(tops):
        tf = os.path.join(d, 'top%d.pdb' % ti)
        md.Trajectory(rs.rand(1, top.n_atoms, 3).astype('float32'), top).save(tf)
        topfiles.append(tf)
        files = []
        for j in range(t.irange(1, 4)):
            Lf = L0 if equal_len else (1 if t.flag(1, 6) else t.irange(1, 8))
            x = (rs.rand(Lf, top.n_atoms, 3) * 2).astype('float32')
            fn = os.path.join(d, 't%d_%d.%s' % (ti, j, t.choice(('xtc', 'nc'))))
            md.Trajectory(x, top).save(fn)
            files.append(fn)
            sel = md.load(tf).top.select(selection)
            loaded.append(md.load(fn, top=md.load(tf).top, atom_indices=sel))
        trjsets.append(files)
    lengths = [len(x) for x in loaded]
    n_sel = loaded[0].n_atoms
    # centres: frames of the data plus noise
    K = t.irange(1, 5)
    allxyz = np.concatenate([x.xyz for x in loaded])
    cidx = [t.draw(len(allxyz)) for _ in range(K)]
    cxyz = (allxyz[cidx] + rs.normal(0, 0.05, size=(K, n_sel, 3))).astype('float32')
    ctop = loaded[0].top
    as_traj = t.flag()
    centers = md.Trajectory(cxyz.copy(), ctop) if as_traj else [md.Trajectory(cxyz[i:i + 1].copy(), ctop) for i in range(K)]
    ctx.hit('centers_as_trajectory' if as_traj else 'centers_as_list')
    # reference: mdtraj's own rmsd on the individually loaded files
    refD, refT = [], []
    for x in loaded:
        pairs = [rmsd64(x.xyz, cxyz[i]) for i in range(K)]
        refD.append(np.array([p_[0] for p_ in pairs]))      # K x len, float64 Kabsch
        refT.append(np.array([p_[1] for p_ in pairs]))      # float32 error model
    # simulated machine
    frac = t.choice((0.5, 0.25, 0.9))
    bpf = n_sel * 3 * 4
    B = t.irange(max(lengths) + 1, sum(lengths) + 2)
    total = int(B * bpf / frac) + 1
    while int(total * frac / bpf) < B:
        total += 1
    nprocs = t.irange(1, 6)
    ctx.scenario.update(family='reassign', topologies=len(tops), files=[len(f) for f in trjsets], lengths=lengths, selection=selection,
                        centers=K, centers_as='trajectory' if as_traj else 'list', batch_frames=B, frac_mem=frac, nprocs=nprocs)
    ctx.fp('reassign', len(tops), tuple(lengths), selection, K, as_traj, B, nprocs, tuple(cidx))
    with simpool.installed(ctx) as sim:
        with reassign_seams(ctx, sim, total, nprocs):
            assig, dist = ctx.sut(U.reassign, topfiles, trjsets, [selection] * len(tops), centers, frac_mem=frac)
    note_pool(ctx, sim)
    # how many batches did that make?  (model of the documented rule: add while the total stays below the batch size)
    nb, cur = 1, 0
    for Ln in lengths:
        if cur + Ln < B:
            cur += Ln
        else:
            nb, cur = nb + 1, Ln
    ctx.hit('multi_batch_reassign' if nb >= 2 else 'single_batch_reassign')
    if nb >= 2 or len(lengths) >= 2:
        ctx.nontrivial = True
    square = len(set(lengths)) == 1
    if square:
        require(isinstance(assig, np.ndarray) and isinstance(dist, np.ndarray), 'wrong_container',
                lambda: 'equal lengths %s but got %s' % (lengths, type(assig).__name__))
        ctx.hit('square_reassign_output')
    else:
        require(hasattr(assig, 'lengths') and hasattr(dist, 'lengths'), 'wrong_container',
                lambda: 'unequal lengths %s but got %s' % (lengths, type(assig).__name__))
        require([int(v) for v in assig.lengths] == lengths and [int(v) for v in dist.lengths] == lengths, 'wrong_lengths',
                lambda: 'output row lengths %s, trajectories have %s' % ([int(v) for v in assig.lengths], lengths))
        ctx.hit('ragged_reassign_output')
    require(len(assig) == len(lengths), 'wrong_row_count', lambda: '%d rows for %d trajectories' % (len(assig), len(lengths)))
    for i, Ln in enumerate(lengths):
        a = np.asarray(assig[i]).astype(int)
        dd = np.asarray(dist[i], dtype=float)
        require(a.shape == (Ln,) and dd.shape == (Ln,), 'wrong_lengths', lambda: 'trajectory %d: %s labels for %d frames' % (i, a.shape, Ln))
        require(a.min() >= 0 and a.max() < K, 'label_out_of_range', lambda: 'trajectory %d labels %s with %d centres' % (i, a.tolist(), K))
        own = refD[i][a, np.arange(Ln)]
        best = refD[i].min(axis=0)
        tol = refT[i][a, np.arange(Ln)] + refT[i].max(axis=0)
        if np.any(np.abs(dd - own) > tol):
            f = int(np.argmax(np.abs(dd - own)))
            raise SimViolation('distance_mismatch', 'trajectory %d frame %d: reported %.8g, rmsd to its centre %d is %.8g (batches=%d)' %
                               (i, f, dd[f], a[f], own[f], nb))
        if np.any(own > best + tol):
            f = int(np.argmax(own - best))
            raise SimViolation('not_nearest', 'trajectory %d frame %d assigned to centre %d at %.8g, centre %d is at %.8g (batches=%d)' %
                               (i, f, a[f], own[f], int(np.argmin(refD[i][:, f])), best[f], nb))


# ------------------------------------------------------------------ (b) partition
def fam_partition(ctx):
    from enspara import ra
    t = ctx.tape
    e = C.E()
    U = e['util']
    mpi = t.flag(1, 3)
    P = C.Problem(ctx, want_ranks=mpi, max_ranks=5, max_frames=40, dtype='float64')
    if P.N == 1:
        mpi = False
    k, cutoff = P.draw_stop(ctx)
    lengths = list(map(int, P.lengths))
    ctx.scenario.update(P.describe(), family='partition', setting='mpi' if mpi else 'serial', n_clusters=k, dist_cutoff=cutoff)
    ctx.fp('partition', mpi, P.N, tuple(lengths), k, cutoff, P.X.tobytes())
    if mpi:
        # the library's own reassembly, then partition (what apps/cluster.py does)
        ops = e['mpi'].ops
        locals_ = [P.local(r) for r in range(P.N)]
        kw = C.kc_kwargs(k, cutoff)
        L = np.array(lengths)

        def rank_fn(r):
            res = e['kcenters'].kcenters(locals_[r], P.sut_metric(), mpi_mode=True, **kw)
            d = ops.assemble_striped_ragged_array(res.distances, L.copy())
            a = ops.assemble_striped_ragged_array(res.assignments, L.copy())
            c = ops.convert_local_indices(res.center_indices, L.copy())
            flat = U.ClusterResult(center_indices=c, distances=d, assignments=a, centers=res.centers)
            part = flat.partition(lengths)
            return flat, part
        w = C.make_world(ctx, P.N)
        outs = w.run(rank_fn)
        ctx.steps += w.stats()['collectives']
        ctx.nontrivial = True
        ctx.fp(tuple(w.sched_trace))
        ctx.hit('partition_after_mpi')
        for flat, part in outs:
            check_partition(ctx, flat, part, lengths)
    else:
        g = clrun.run_serial(ctx, e, P, dict(algo='kcenters', form='function', k=k, cutoff=cutoff))
        # move some centres onto trajectory boundaries (the bookkeeping does not care that they are not k-centers centres)
        ci = list(g.ci)
        starts = np.concatenate([[0], np.cumsum(lengths)[:-1]])
        for j in range(len(ci)):
            m = t.draw(4)
            tr = t.draw(len(lengths))
            if m == 1:
                ci[j] = int(starts[tr])
            elif m == 2:
                ci[j] = int(starts[tr] + lengths[tr] - 1)
        if t.flag():
            ci = np.array(ci)
        flat = U.ClusterResult(center_indices=ci, distances=g.distances.copy(), assignments=g.labels.copy(), centers=g.centers)
        part = ctx.sut(flat.partition, lengths if t.flag() else np.array(lengths))
        check_partition(ctx, flat, part, lengths)
        if len(lengths) >= 2:
            ctx.nontrivial = True
        # the two helpers directly
        idx = [t.draw(P.n) for _ in range(t.irange(1, 6))]
        pi = ctx.sut(ra.partition_indices, idx, lengths)
        want = [model_partition_index(i, lengths) for i in idx]
        require([tuple(map(int, x)) for x in pi] == want, 'partition_indices_wrong', lambda: 'indices %s lengths %s -> %s, expected %s' %
                (idx, lengths, pi, want))
        pl = ctx.sut(ra.partition_list, g.distances, lengths)
        require(len(pl) == len(lengths) and all(np.array_equal(np.asarray(p), g.distances[s:s + Ln]) for p, s, Ln in
                                                 zip(pl, starts, lengths)), 'partition_list_wrong', 'pieces are not the consecutive slices')
        ctx.postcond('partition_helpers')


def model_partition_index(i, lengths):
    for tr, Ln in enumerate(lengths):
        if i < Ln:
            return (tr, int(i))
        i -= Ln
    return None


def check_partition(ctx, flat, part, lengths):
    from enspara import ra
    n = sum(lengths)
    starts = np.concatenate([[0], np.cumsum(lengths)[:-1]])
    square = len(set(lengths)) == 1
    if 1 in lengths:
        ctx.hit('length1_trajectory')
    for name in ('assignments', 'distances'):
        got = getattr(part, name)
        src = np.asarray(getattr(flat, name))
        if square:
            require(isinstance(got, np.ndarray) and got.shape == (len(lengths), lengths[0]), 'wrong_container',
                    lambda: '%s: equal lengths %s but got %s %s' % (name, lengths, type(got).__name__, getattr(got, 'shape', None)))
            ctx.hit('partition_square')
            pieces = [got[i] for i in range(len(lengths))]
        else:
            require(isinstance(got, ra.RaggedArray), 'wrong_container', lambda: '%s: unequal lengths %s but got %s' % (name, lengths, type(got).__name__))
            require([int(v) for v in got.lengths] == lengths, 'wrong_lengths', lambda: '%s: row lengths %s vs %s' % (name, list(got.lengths), lengths))
            ctx.hit('partition_ragged')
            pieces = [np.asarray(got[i]) for i in range(len(lengths))]
        for i, (s, Ln) in enumerate(zip(starts, lengths)):
            require(np.array_equal(np.asarray(pieces[i]), src[s:s + Ln]), 'partition_changed_values',
                    lambda: '%s of trajectory %d: %s, flat slice %s' % (name, i, np.asarray(pieces[i]).tolist(), src[s:s + Ln].tolist()))
        back = np.concatenate([np.asarray(p) for p in pieces]) if pieces else np.zeros(0)
        require(np.array_equal(back, src), 'partition_not_invertible', '%s: concatenating the pieces does not restore the flat array' % name)
    ci = [int(c) for c in flat.center_indices]
    pc = [tuple(int(v) for v in x) for x in part.center_indices]
    require(len(pc) == len(ci), 'center_lost', lambda: '%d flat centres -> %d partitioned' % (len(ci), len(pc)))
    for c, (tr, fr) in zip(ci, pc):
        require(0 <= tr < len(lengths) and 0 <= fr < lengths[tr] and starts[tr] + fr == c, 'center_index_wrong',
                lambda: 'flat centre %d -> (trajectory %d, frame %d); lengths %s' % (c, tr, fr, lengths))
        if fr == 0:
            ctx.hit('center_on_first_frame')
        if fr == lengths[tr] - 1:
            ctx.hit('center_on_last_frame')
    ctx.postcond('partition')


# ------------------------------------------------------------------ (c) assign / predict / centre finder
def fam_assign(ctx):
    import mdtraj as md
    t = ctx.tape
    e = C.E()
    U = e['util']
    kind = t.choice(('arrays', 'arrays', 'predict', 'trajectories'))
    if kind == 'trajectories':
        # at least six atoms: with two or three atoms the optimal superposition is (nearly) degenerate and mdtraj's float32
        # RMSD is off by far more than any sensible allowance (measured: up to 5x the error model for 2 atoms, 0.03x for >= 5)
        top = make_top(2, t.flag())
        n_atoms = top.n_atoms
        rs = np.random.RandomState(t.draw(2 ** 31 - 1))
        n = t.irange(1, 6)
        K = t.irange(1, 9)
        X = md.Trajectory(rs.rand(n, n_atoms, 3).astype('float32'), top)
        Cn = md.Trajectory(rs.rand(K, n_atoms, 3).astype('float32'), top)
        if K > n:
            ctx.hit('more_centers_than_frames')
        as_list = t.flag() and K <= n
        ctx.scenario.update(family='assign', kind=kind, frames=n, centers=K, centers_as_list=as_list)
        ctx.fp('assign-trj', n, K, as_list, X.xyz.tobytes(), Cn.xyz.tobytes())
        a, d = ctx.sut(U.assign_to_nearest_center, X, [Cn[i] for i in range(K)] if as_list else Cn, md.rmsd)
        pairs = [rmsd64(X.xyz, Cn.xyz[i]) for i in range(K)]
        D = np.array([p_[0] for p_ in pairs])
        check_assign(a, d, D, 0.0, abs_tol=np.array([p_[1] for p_ in pairs]).max(axis=0) * 2)
        if K >= 2:
            ctx.nontrivial = True
        if t.flag(1, 3):
            # an estimator fitted on one trajectory assigns the frames of another one
            nfit = t.irange(3, 12)
            Xf = md.Trajectory(rs.rand(nfit, n_atoms, 3).astype('float32'), top)
            kk = t.irange(1, min(4, nfit - 1))
            algo = t.choice(('kcenters', 'hybrid'))
            if algo == 'kcenters':
                est = e['kcenters'].KCenters('rmsd' if t.flag() else md.rmsd, n_clusters=kk)
            else:
                est = e['hybrid'].KHybrid('rmsd', n_clusters=kk, kmedoids_updates=t.irange(0, 2), random_state=t.draw(100))
            ctx.sut(est.fit, Xf)
            Y = md.Trajectory(rs.rand(n, n_atoms, 3).astype('float32'), top)
            ysnap = Y.xyz.copy()
            res = ctx.sut(est.predict, Y)
            cidx = [int(c) for c in est.center_indices_]
            cs = [np.asarray(c.xyz[0]) for c in est.centers_]
            require(len(cs) == len(cidx), 'center_count_mismatch', lambda: '%d centres, %d indices' % (len(cs), len(cidx)))
            pairs = [rmsd64(ysnap, c_) for c_ in cs]
            D = np.array([p_[0] for p_ in pairs])
            check_assign(res.assignments, res.distances, D, 0.0, abs_tol=np.array([p_[1] for p_ in pairs]).max(axis=0) * 2)
            ya, yb = np.asarray(Y.xyz, dtype=np.float64), ysnap.astype(np.float64)
            require(ya.shape == yb.shape and np.allclose(ya - ya.mean(axis=1, keepdims=True), yb - yb.mean(axis=1, keepdims=True), rtol=0, atol=4e-6), 'input_modified',
                    'predict changed the trajectory it was given (beyond mdtraj moving frames to their centroid)')
            ctx.hit('predict_on_trajectory')
        return
    P = C.Problem(ctx, want_ranks=False, max_frames=30)
    metric = P.sut_metric()
    model = P.model_metric
    K = t.irange(1, min(8, P.n))
    if kind == 'predict':
        k, cutoff = P.draw_stop(ctx)
        algo = t.choice(('kcenters', 'hybrid', 'kmedoids'))
        if algo == 'kcenters':
            est = e['kcenters'].KCenters(metric, n_clusters=k, cluster_radius=cutoff)
        elif algo == 'hybrid':
            est = e['hybrid'].KHybrid(metric, n_clusters=k, cluster_radius=cutoff, kmedoids_updates=t.irange(0, 2), random_state=t.draw(100))
        else:
            np.random.seed(t.draw(1000))
            est = e['kmedoids'].KMedoids(metric, n_clusters=K, n_iters=t.irange(1, 2))
            # warm start from a k-centers state: the estimator's cold start seeds itself from OS entropy, which would make the
            # run unrepeatable
            kc = ctx.sut(e['kcenters'].kcenters, P.X.copy(), metric, n_clusters=K)
            km_warm = dict(assignments=np.array(kc.assignments), distances=np.array(kc.distances), cluster_center_inds=[int(c) for c in kc.center_indices])
        ctx.sut(est.fit, P.X.copy(), **(km_warm if algo == 'kmedoids' else {}))
        # new data, not the training data
        Y = M.gen_points(t, t.irange(1, 20), P.dim, P.dtype)
        if P.metric_name.startswith('callable') and P.dtype == 'float32' and t.flag():
            # wider element type than the training data (a user metric accepts it): values float32 cannot hold
            Y = Y.astype(np.float64) + 1e5 + np.arange(len(Y))[:, None] * 1e-3
            ctx.hit('predict_wider_dtype')
        if t.flag(1, 3) and len(est.labels_) > 1:
            # the caller post-processes the labels it got from the fitted object (merging states): predict assigns to
            # the given centres and must not care
            lab = est.labels_
            lab[lab == lab.max()] = 0
            ctx.hit('caller_edits_labels_')
        snap = Y.copy()
        res = ctx.sut(est.predict, Y)
        require(np.array_equal(Y, snap), 'input_modified', 'predict modified its data')
        Cs = [np.asarray(c) for c in est.centers_]
        D = np.array([model(Y, c) for c in Cs])
        check_assign(res.assignments, res.distances, D, M.rtol_for(Y.dtype) * 4)
        check_center_finder(ctx, U, res.assignments, res.distances, res.center_indices)
        ctx.hit('predict_new_data')
        if t.flag():
            # the same estimator object is fitted again on other data: predictions follow the new fit
            X2 = M.gen_points(t, t.irange(max(2, K), 20), P.dim, P.dtype)     # k-medoids needs at least K frames
            if algo == 'kmedoids':
                kc2 = ctx.sut(e['kcenters'].kcenters, X2.copy(), metric, n_clusters=K)
                ctx.sut(est.fit, X2.copy(), assignments=np.array(kc2.assignments), distances=np.array(kc2.distances),
                        cluster_center_inds=[int(c) for c in kc2.center_indices])
            else:
                ctx.sut(est.fit, X2.copy())
            res2 = ctx.sut(est.predict, Y)
            Cs2 = [np.asarray(c) for c in est.centers_]
            D2 = np.array([model(Y, c) for c in Cs2])
            check_assign(res2.assignments, res2.distances, D2, M.rtol_for(P.dtype) * 4)
            ctx.hit('predict_after_refit')
        ctx.scenario.update(P.describe(), family='assign', kind=kind, algo=algo, new_frames=len(Y))
        ctx.fp('predict', algo, P.X.tobytes(), Y.tobytes(), k, cutoff)
        if len(Cs) >= 2:
            ctx.nontrivial = True
        return
    # plain arrays, fewer or more centres than frames
    if t.flag(1, 3):
        K = P.n + t.irange(1, 5)
        ctx.hit('more_centers_than_frames')
    Cn = M.gen_points(t, K, P.dim, P.dtype)
    as_list = t.flag()
    ctx.scenario.update(P.describe(), family='assign', kind=kind, centers=K, centers_as_list=as_list)
    ctx.fp('assign', P.X.tobytes(), Cn.tobytes(), P.metric_name, as_list)
    Xc = P.X.copy()
    a, d = ctx.sut(U.assign_to_nearest_center, Xc, [c for c in Cn] if as_list else Cn, U._get_distance_method(metric))
    require(np.array_equal(Xc, P.X), 'input_modified', 'assign_to_nearest_center modified its data')
    D = np.array([model(P.X, c) for c in Cn])
    check_assign(a, d, D, M.rtol_for(P.dtype) * 4)
    check_center_finder(ctx, U, a, d, None)
    if K >= 2:
        ctx.nontrivial = True


def check_assign(a, d, D, rtol, abs_tol=0.0):
    a = np.asarray(a)
    d = np.asarray(d, dtype=float)
    K, n = D.shape
    require(a.shape == (n,) and d.shape == (n,), 'bad_shape', lambda: 'labels %s distances %s for %d frames' % (a.shape, d.shape, n))
    require(np.issubdtype(a.dtype, np.integer) and (n == 0 or (a.min() >= 0 and a.max() < K)), 'label_out_of_range',
            lambda: 'labels %s with %d centres' % (a.tolist(), K))
    if n == 0:
        return
    own = D[a, np.arange(n)]
    best = D.min(axis=0)
    tol = rtol * np.maximum(1.0, D.max()) + abs_tol
    if np.any(np.abs(d - own) > tol):
        f = int(np.argmax(np.abs(d - own) - tol))
        raise SimViolation('distance_mismatch', 'frame %d: reported %.17g, distance to its centre %d is %.17g' % (f, d[f], a[f], own[f]))
    if np.any(own > best + tol):
        f = int(np.argmax(own - best))
        raise SimViolation('not_nearest', 'frame %d assigned to centre %d at %.17g, centre %d is at %.17g' %
                           (f, a[f], own[f], int(np.argmin(D[:, f])), best[f]))


def check_center_finder(ctx, U, a, d, given):
    """the per-label centre finder returns a member of smallest distance for each label present"""
    a = np.asarray(a)
    d = np.asarray(d, dtype=float)
    if len(a) == 0:
        return
    got = np.asarray(ctx.sut(U.find_cluster_centers, a.copy(), d.copy()))
    labels = np.unique(a)
    require(len(got) == len(labels), 'center_finder_count', lambda: '%d labels present, %d centres returned' % (len(labels), len(got)))
    for lab, idx in zip(labels, got):
        idx = int(idx)
        require(0 <= idx < len(a) and a[idx] == lab, 'center_finder_not_member', lambda: 'label %d -> frame %d which carries label %s' %
                (lab, idx, a[idx] if 0 <= idx < len(a) else None))
        require(d[idx] <= d[a == lab].min(), 'center_finder_not_minimal', lambda: 'label %d -> frame %d at %.17g, a member is at %.17g' %
                (lab, idx, d[idx], d[a == lab].min()))
    if given is not None:
        require([int(x) for x in given] == [int(x) for x in got], 'predict_centers_inconsistent', 'predict center_indices differ from the centre finder')
    ctx.postcond('center_finder')
