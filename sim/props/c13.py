"""C13 — distance kernels exact for every dtype, memory layout and thread count.

The unmodified compiled kernels run on simgomp: a team of T virtual threads
whose order comes from the tape, each executing against a private snapshot of
all live NumPy buffers (merged last-writer-wins at barriers), on a heap that is
poisoned and fenced with red zones by simalloc.
"""
from fractions import Fraction
import math

import numpy as np

from ..core.run import require
from ..engines import native
from ..engines.simmpi import SimViolation

ID = 'C13'
RULE = ('Each run draws a kernel (euclidean/manhattan/hamming, direct or through the metric-name lookup), element type, '
        'shape (0..70 samples x 0..9 features), memory layout of X, y and out (C, Fortran, strided, negatively strided, '
        'offset views), a caller-supplied dirty output buffer or none, the OpenMP team size (1..16 or one thread per '
        'sample), the order of virtual threads, the merge order of their private memory images, and the heap poison; '
        'a third of the runs are invalid calls that must be rejected. Non-trivial: a team of >= 2 virtual threads ran '
        'a region under snapshot isolation with >= 2 samples; distinct = digest of (kernel, dtype, layout, shapes, data, team, schedule).')
BUDGET = {'quick': dict(runs=16000, wall_s=55, chunk=100), 'thorough': dict(runs=400000, wall_s=780, chunk=200)}
COMPONENTS = {'real': ['compiled enspara.geometry.libdist (unmodified generated C, GCC static chunking)',
                       'enspara.cluster.util._get_distance_method', 'numpy'],
              'stub': ['OpenMP runtime (simgomp: ucontext virtual threads, snapshot isolation, LWW merge)',
                       'heap allocator (simalloc: poison, red zones)']}
ASSUMPTIONS = ['instructions inside one barrier-to-barrier segment are not interleaved; snapshot isolation makes every '
               'cross-thread read or write conflict a deterministic wrong answer instead',
               'integer inputs stay where the element type\'s own subtraction and squaring cannot overflow',
               'float32 inputs: relative tolerance 1e-6 (the kernel subtracts in float32 by construction); others 1e-12; Hamming exact']
REACH_EXPECTED = ['int64_coordinates_beyond_2_53', 'float32_rows_whose_sum_of_squares_needs_float64', 'wide_rows', 'tall_matrix', 'team_ge_2', 'one_thread_per_sample', 'dirty_out', 'strided_out', 'fortran_X', 'negative_stride',
                  'zero_samples', 'zero_features', 'invalid_rejected', 'schedule_pair_compared', 'via_metric_name']

EUCL = ('int8', 'int16', 'int32', 'int64', 'float32', 'float64')
HAMM = ('uint8', 'uint16', 'uint32', 'uint64', 'int8', 'int16', 'int32', 'int64')
# largest magnitude generated per element type: differences must be representable in C's promoted arithmetic
# (int for types up to 32 bits, long for 64-bit) and their squares in 64 bits - nothing narrower than that
RANGE = {'int8': 127, 'int16': 32767, 'int32': 10 ** 9, 'int64': 10 ** 9, 'uint8': 255, 'uint16': 65535, 'uint32': 2 ** 32 - 1,
         'uint64': 2 ** 40}


def setup():
    native.lib()


def gen_values(t, shape, dt):
    n = int(np.prod(shape))
    if dt.startswith('float'):
        rs = np.random.RandomState(t.draw(2 ** 31 - 1))
        base = np.array(t.block(n, 32), dtype=np.float64).reshape(shape) / 4.0 - 3.0
        vals = base + rs.uniform(-0.2, 0.2, size=shape)
        return vals.astype(dt)
    r = RANGE[dt]
    if dt.startswith('uint'):
        # few distinct states so that equal coordinates are common (Hamming)
        span = 2 + t.draw(3) if t.flag(2, 3) else r
        return np.array(t.block(n, span), dtype=np.int64).reshape(shape).astype(dt)
    mode = t.draw(3)
    if mode == 0:
        span = 3 + t.draw(3)
        return (np.array(t.block(n, span), dtype=np.int64).reshape(shape) - (span // 2)).astype(dt)
    if mode == 1:
        return (np.array(t.block(n, 2 * r + 1), dtype=np.int64).reshape(shape) - r).astype(dt)
    # extremes: the ends of the range and zero
    ext = np.array([-r, r, 0, r - 1, -r + 1], dtype=np.int64)
    return ext[np.array(t.block(n, len(ext)), dtype=np.int64)].reshape(shape).astype(dt)


def layout(ctx, t, a, kinds):
    """return a view/copy of `a` with the drawn memory layout (same values)"""
    kind = t.choice(kinds)
    if a.ndim == 2:
        n, f = a.shape
        if kind == 'F':
            ctx.hit('fortran_X')
            return np.asfortranarray(a)
        if kind == 'strided':
            big = np.zeros((2 * n + 1, 3 * f + 2), dtype=a.dtype)
            v = big[1::2, 2::3][:n, :f]
            v[...] = a
            return v
        if kind == 'neg':
            ctx.hit('negative_stride')
            big = np.ascontiguousarray(a[::-1, ::-1])
            return big[::-1, ::-1]
        if kind == 'offset':
            big = np.zeros((n + 2, f + 3), dtype=a.dtype)
            v = big[1:n + 1, 2:f + 2]
            v[...] = a
            return v
        return np.ascontiguousarray(a)
    n = a.shape[0]
    if kind == 'strided':
        big = np.zeros(3 * n + 2, dtype=a.dtype)
        v = big[1::3][:n]
        v[...] = a
        return v
    if kind == 'neg':
        big = np.ascontiguousarray(a[::-1])
        return big[::-1]
    return np.ascontiguousarray(a)


def exact_reference(kernel, X, y):
    """per row, the exact value rounded once"""
    if X.size > 20000 and X.dtype.kind in 'iu':
        # exact in int64/object arithmetic, vectorised (values are bounded by RANGE)
        d = X.astype(object) - y.astype(object)
        if kernel == 'hamming':
            return np.array([(row != 0).sum() / len(y) for row in d], dtype=np.float64)
        if kernel == 'euclidean':
            return np.array([math.sqrt(int((row * row).sum())) for row in d], dtype=np.float64)
        return np.array([float(int(np.abs(row).sum())) for row in d], dtype=np.float64)
    out = []
    Xl = X.tolist()
    yl = y.tolist()
    isf = X.dtype.kind == 'f'
    if isf:
        yl = [Fraction(float(v)) for v in y]
    for row_i, row in enumerate(Xl):
        if kernel == 'hamming':
            nf = len(yl)
            cnt = sum(1 for a, b in zip(row, yl) if a != b)
            out.append(cnt / nf)
            continue
        if isf:
            row = [Fraction(float(v)) for v in X[row_i]]
        if kernel == 'euclidean':
            s = sum((a - b) * (a - b) for a, b in zip(row, yl))
            out.append(math.sqrt(s) if not isinstance(s, Fraction) else math.sqrt(float(s)))
        else:
            s = sum(abs(a - b) for a, b in zip(row, yl))
            out.append(float(s))
    return np.array(out, dtype=np.float64)


def gomp_config(ctx, t, n, stream='gomp'):
    mode = t.draw(6, stream)
    if mode == 0:
        T = 1
    elif mode == 1 and n >= 1:
        T = min(max(n, 1), 64)
        ctx.hit('one_thread_per_sample')
    else:
        T = 2 + t.draw(15, stream)
    dec = t.block(8 * T + 8, 64, stream)
    return T, dec


def call_kernel(ctx, fn, X, y, out, T, dec, iso=True):
    native.gomp(T, iso, dec)
    native.gomp_stats(reset=True)
    native.reset_redzone()
    res = fn(X, y, out=out) if out is not None else fn(X, y)
    st = native.gomp_stats()
    bad = native.redzone_bad()
    native.gomp(1, False, None)
    if bad:
        raise SimViolation('out_of_bounds_write', '%d heap buffers with damaged red zones after the call' % bad)
    if st['sync_seen']:
        # critical sections / atomics / locks / `with gil:` blocks inside the region: the simulated runtime commits what is
        # written inside them at once and shows it to the next thread that enters one (sim/native/simrt.c, cs_enter)
        ctx.count('critical_sections_in_regions', st['sync_seen'])
    ctx.steps += st['switches'] + st['barriers']
    ctx.count('parallel_regions', st['regions'])
    ctx.count('virtual_thread_switches', st['switches'])
    ctx.count('isolated_regions', st['iso_regions'])
    ctx.count('merged_diff_bytes', st['diff_bytes'])
    if st.get('overlap_bytes'):
        # two threads of one team changed the same bytes of a NumPy buffer between two barriers, to the same value: their
        # write sets overlap, which unsynchronised code only survives when the two happen not to run at the same time
        # (zero / accumulate / square root of one output cell by two owners, say)
        raise SimViolation('threads_write_the_same_cells', '%d bytes were changed (to the same value) by more than one thread of the team '
                           '(T=%d) within one barrier epoch and outside any critical section' % (st['overlap_bytes'], st['max_team']))
    if st['conflict_bytes']:
        # two virtual threads of one team wrote different values to the same bytes of a NumPy buffer between two
        # barriers: in a race-free region the threads' write sets are disjoint
        raise SimViolation('data_race_write_write', '%d bytes written with different values by more than one thread of the '
                           'team (T=%d) within one barrier epoch' % (st['conflict_bytes'], st['max_team']))
    return res, st


def scenario(ctx):
    t = ctx.tape
    from enspara.geometry import libdist
    from enspara.cluster import util
    from enspara import exception
    kernel = t.choice(('euclidean', 'manhattan', 'hamming'))
    via_name = kernel != 'hamming' and t.flag(1, 5)
    if via_name:
        name = kernel if kernel == 'euclidean' else t.choice(('manhattan', 'cityblock'))
        fn = ctx.sut(util._get_distance_method, name)
        ctx.hit('via_metric_name')
    else:
        fn = getattr(libdist, kernel)
    poison = t.draw(7)
    native.poison(poison, 1 + t.draw(1000))
    native.install_allocator()
    try:
        if poison:
            ctx.fault('poison_' + native.POISON_MODES[poison])
        if t.flag(1, 3):
            invalid_call(ctx, t, kernel, fn)
        else:
            valid_call(ctx, t, kernel, fn)
    finally:
        native.gomp(1, False, None)
        native.uninstall_allocator()
        native.poison(0, 1)


def valid_call(ctx, t, kernel, fn):
    dt = t.choice(HAMM if kernel == 'hamming' else EUCL)
    n = t.choice((0, 1, 2, 3)) if t.flag(1, 4) else t.irange(2, 70)
    f = t.irange(1, 9)
    if kernel != 'hamming' and t.flag(1, 12):
        f = 0
        ctx.hit('zero_features')
    shape_mode = t.draw(40)
    if shape_mode == 0:
        # few very long rows (sizes around the powers of two where fast paths tend to switch)
        n, f = t.irange(1, 3), t.choice((4096, 4097, 8192, 5000))
        ctx.hit('wide_rows')
    elif shape_mode == 1:
        n, f = t.choice((4096, 32768, 33000)), t.irange(1, 2)
        ctx.hit('tall_matrix')
    if n == 0:
        ctx.hit('zero_samples')
    Xv = gen_values(t, (n, f), dt)
    if n >= 2 and t.flag(1, 3):
        yv = Xv[t.draw(n)].copy()          # the target is one of the rows (as in clustering)
    else:
        yv = gen_values(t, (f,), dt)
    if kernel != 'hamming' and dt == 'int64' and 1 <= n <= 70 and 1 <= f <= 9 and t.flag(1, 4):
        # large 64-bit coordinates close to each other (time stamps, hashed ids): every difference is small and exact in the
        # element type, although the coordinates themselves do not fit a double
        base = (1 << t.choice((54, 55, 60))) + t.draw(1000)
        Xv = (base + np.array(t.block(n * f, 2000), dtype=np.int64).reshape(n, f)).astype('int64')
        yv = (base + np.array(t.block(f, 2000), dtype=np.int64)).astype('int64')
        ctx.hit('int64_coordinates_beyond_2_53')
    if kernel == 'euclidean' and dt == 'float32' and 1 <= n <= 12 and t.flag(1, 6):
        # wide rows of whole numbers (counts, grey values): every term is exact in float32, their sum needs more than 24 bits
        f = t.choice((300, 700, 1500))
        Xv = np.array(t.block(n * f, 256), dtype=np.float64).reshape(n, f).astype('float32')
        yv = np.zeros(f, dtype='float32')
        ctx.hit('float32_rows_whose_sum_of_squares_needs_float64')
    X = layout(ctx, t, Xv, ('C', 'C', 'F', 'strided', 'neg', 'offset'))
    y = layout(ctx, t, yv, ('C', 'C', 'strided', 'neg'))
    out_kind = t.draw(5)           # 0/1 none, 2 dirty contiguous, 3 dirty strided view, 4 dirty reversed view
    out = None
    if out_kind == 2:
        out = np.empty(n, dtype=np.float64)
        out[...] = t.choice((np.nan, 1e300, -7.0, 123.0))
        ctx.hit('dirty_out')
    elif out_kind == 3:
        big = np.full(2 * n + 1, 55.5, dtype=np.float64)
        out = big[::2][:n]
        out[...] = t.choice((np.nan, 1e300, -7.0))
        ctx.hit('dirty_out')
        ctx.hit('strided_out')
    elif out_kind == 4:
        base_out = np.full(n, 7.25, dtype=np.float64)
        out = base_out[::-1]
        ctx.hit('dirty_out')
        ctx.hit('strided_out')
    T, dec = gomp_config(ctx, t, n)
    ctx.scenario.update(kind='valid', kernel=kernel, dtype=dt, shape=[n, f], X_strides=list(X.strides), y_strides=list(y.strides),
                        out=('none', 'none', 'dirty', 'dirty-strided', 'dirty-reversed')[out_kind], team=T,
                        X=Xv[:6].tolist(), y=yv.tolist())
    ctx.fp(kernel, dt, n, f, X.strides, y.strides, out_kind, T, tuple(dec[:2 * T]), Xv.tobytes(), yv.tobytes())
    Xs, ys = X.copy(), y.copy()
    res, st = ctx.sut(call_kernel, ctx, fn, X, y, out, T, dec)
    if st['max_team'] >= 2:
        ctx.hit('team_ge_2')
        if n >= 2 and st['iso_regions']:
            ctx.nontrivial = True
    require(isinstance(res, np.ndarray) and res.ndim == 1 and res.dtype == np.float64 and res.shape == (n,),
            'bad_result_type', lambda: 'returned %s %s %s' % (type(res).__name__, getattr(res, 'dtype', None), getattr(res, 'shape', None)))
    if out is not None:
        require(res is out, 'out_not_returned', 'with out= the returned object is not the supplied buffer')
        if out_kind == 3:
            require(np.all(big[1::2] == 55.5), 'out_of_bounds_write', 'elements between the strided output cells were overwritten')
    require(np.array_equal(X, Xs) and np.array_equal(y, ys), 'input_modified', 'X or y changed')
    ref = exact_reference(kernel, Xv, yv)
    if kernel == 'hamming':
        ok = np.array_equal(res, ref)
    else:
        rtol = 1e-6 if dt == 'float32' else 1e-12
        scale = np.maximum(np.abs(ref), float(np.abs(Xv.astype(np.float64)).max() if Xv.size else 1.0) * (1e-1 if dt == 'float32' else 0))
        ok = bool(np.all(np.abs(res - ref) <= rtol * np.maximum(scale, 1e-300))) and not np.any(np.isnan(res))
    if not ok:
        i = int(np.argmax(np.abs(np.nan_to_num(res, nan=1e308) - ref)))
        raise SimViolation('wrong_distance', '%s %s n=%d f=%d T=%d: row %d got %.17g, exact %.17g' %
                           (kernel, dt, n, f, T, i, res[i], ref[i]))
    # the same call under another team size and thread order gives the same bits
    if t.flag(1, 2):
        T2, dec2 = gomp_config(ctx, t, n, 'gomp2')
        out2 = None if out is None else np.full(n, -3.25)
        res2, st2 = ctx.sut(call_kernel, ctx, fn, X, y, out2, T2, dec2)
        require(np.array_equal(res, res2, equal_nan=True), 'thread_count_dependent',
                lambda: '%s %s: T=%d and T=%d disagree at rows %s' % (kernel, dt, T, T2, np.where(res != res2)[0][:6].tolist()))
        ctx.hit('schedule_pair_compared')


def invalid_call(ctx, t, kernel, fn):
    dt = t.choice(HAMM if kernel == 'hamming' else EUCL)
    n = t.irange(1, 12)
    f = t.irange(1, 6)
    X = gen_values(t, (n, f), dt)
    y = gen_values(t, (f,), dt)
    out = None
    what = t.choice(('X_1d', 'X_3d', 'y_2d', 'width', 'out_dtype', 'out_short', 'out_long', 'out_2d', 'dtype_mix',
                     'unsupported_dtype', 'y_scalar'))
    canary = None
    if what == 'X_1d':
        X = X[0]
    elif what == 'X_3d':
        X = X.reshape(n, f, 1)
    elif what == 'y_2d':
        y = y.reshape(1, f)
    elif what == 'width':
        y = gen_values(t, (f + 1 + t.draw(2),), dt) if t.flag() else y[:f - 1] if f > 1 else gen_values(t, (f + 1,), dt)
    elif what == 'out_dtype':
        out = np.full(n, 7, dtype=t.choice(('float32', 'int64', 'float16')))
    elif what == 'out_short':
        out = np.full(max(n - 1 - t.draw(2), 0), 7.0)
    elif what == 'out_long':
        out = np.full(n + 1 + t.draw(3), 7.0)
    elif what == 'out_2d':
        out = np.full((n, 1 + t.draw(2)), 7.0)
    elif what == 'dtype_mix':
        other = [d for d in (HAMM if kernel == 'hamming' else EUCL) if d != dt]
        y = y.astype(t.choice(other))
    elif what == 'unsupported_dtype':
        bad = ('float16', 'complex128') + (('float64', 'float32') if kernel == 'hamming' else ('uint8', 'uint32'))
        bd = t.choice(bad)
        X, y = X.astype(bd), y.astype(bd)
    elif what == 'y_scalar':
        y = np.array(3, dtype=dt)
    if out is not None:
        canary = out.copy()
    T, dec = gomp_config(ctx, t, n)
    ctx.scenario.update(kind='invalid', kernel=kernel, dtype=dt, what=what, X_shape=list(np.shape(X)), y_shape=list(np.shape(y)),
                        out_shape=None if out is None else list(out.shape), team=T)
    ctx.fp('invalid', kernel, dt, what, np.shape(X), np.shape(y), None if out is None else (out.shape, out.dtype.str), T)
    native.gomp(T, True, dec)
    native.reset_redzone()
    Xs, ys = np.array(X, copy=True), np.array(y, copy=True)
    try:
        exc = ctx.expect_raise(lambda: fn(X, y, out=out) if out is not None else fn(X, y))
    finally:
        bad = native.redzone_bad()
        native.gomp(1, False, None)
    require(bad == 0, 'out_of_bounds_write', lambda: 'invalid call (%s) damaged %d red zones' % (what, bad))
    require(exc is not None, 'invalid_input_accepted', lambda: '%s accepted an invalid call (%s): X%s %s, y%s %s, out %s' %
            (kernel, what, np.shape(X), getattr(X, 'dtype', None), np.shape(y), getattr(y, 'dtype', None),
             None if out is None else (out.shape, out.dtype)))
    if canary is not None:
        require(np.array_equal(out, canary), 'out_touched_by_rejected_call', 'the output buffer of a rejected call was written')
    require(np.array_equal(X, Xs) and np.array_equal(y, ys), 'input_modified', 'X or y changed by a rejected call')
    ctx.hit('invalid_rejected')
