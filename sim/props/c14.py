"""C14 — MPI-striped clustering and reductions equal their serial counterparts.

Simulated MPI ranks (real enspara code per rank, baton-passing threads, fake
mpi4py) under a seeded scheduler: arrival order at every collective, eager
broadcast roots, reduction reassociation, poisoned receive buffers.
"""
import numpy as np

from ..core.run import Skip, require
from ..engines.simmpi import SimViolation
from ..models import cluster as M
from . import clcommon as C
from . import clrun
from . import mpiops
from . import appfam

ID = 'C14'
RULE = ('Each run draws from one seeded tape: world size 1..8 (thorough 1..12), trajectory lengths, data, metric, '
        'stopping rule, algorithm (distributed k-centers with/without triangle shortcut, k-hybrid with 0..3 '
        'sweeps, or one of the striped operations / loaders), the rank that runs next whenever several are '
        'runnable, eager vs rendezvous roots per broadcast, allreduce association order, and the heap poison '
        'pattern.  A run is non-trivial when the world has >= 2 ranks and the scheduler took at least one '
        'decision between runnable ranks; In the thorough tier a quarter of the pipeline runs use deeper bounds (150 frames, 36 trajectories, 16 centres). distinct = digest of (configuration, data, schedule, faults).')
BUDGET = {'quick': dict(runs=2400, wall_s=55, chunk=20), 'thorough': dict(runs=60000, wall_s=780, chunk=40)}
COMPONENTS = {'real': ['enspara.cluster.kcenters/kmedoids/hybrid', 'enspara.mpi.ops', 'enspara.mpi.io',
                       'enspara.ra', 'compiled libdist kernels', 'numpy', 'PyTables/mdtraj (loaders)'],
              'stub': ['MPI library (simmpi: fake mpi4py, baton-passing rank threads)',
                       'heap allocator (simalloc poison + red zones)', 'OpenMP runtime (simgomp, team of 1 here)']}
ASSUMPTIONS = ['for md.Trajectory data the metric model is mdtraj.rmsd itself on the whole data set; two evaluations of one RMSD may differ by sqrt(d^2 + 2e-4) - d (the float32 routine evaluated on frames already moved to their centroid, or in another batch; measured up to 1e-5 in the mean squared deviation, heavy-tailed), reported values are compared with that allowance, near-ties inside it make a scenario not tie-free, and because mdtraj.rmsd moves the frames it is given to their centroid in place, centres and the caller\'s data are compared up to that translation', 'collective semantics follow the mpi4py documentation (no real MPI in the sandbox to cross-check)',
               'rank crash / message loss are not injected: MPI has no semantics for them',
               'bit-for-bit equality with the serial run is demanded only on scenarios the float64 model classifies '
               'as tie-free (every farthest-point choice and stopping test unambiguous beyond 1e-6 relative)']
REACH_EXPECTED = ['rmsd_trajectory_data', 'farthest_point_changed_owner', 'rank_with_single_frame', 'eager_root_ran_ahead',
                  'equal_length_group_on_rank', 'tie_free_equality_checked', 'kmedoids_stage_checked',
                  'schedule_independence_checked', 'op_randind_empty_local', 'app_end_to_end', 'app_equals_serial', 'app_subsample', 'app_files_not_in_name_order', 'app_no_reassign_without_subsample', 'traj_app_end_to_end', 'traj_app_equals_serial', 'traj_app_subsample', 'traj_app_two_topologies', 'traj_app_three_groups', 'traj_app_group_without_centre', 'app_kmedoids_restart', 'app_kmedoids_restart_mpi', 'app_features_as_glob_pattern']


def scenario(ctx):
    t = ctx.tape
    fam = t.draw(10)
    if fam < 5:
        pipeline(ctx)
    elif fam < 6:
        which = t.draw(6)
        if which < 2:
            appfam.app_traj_scenario(ctx)
        elif which == 2:
            appfam.app_kmedoids_scenario(ctx)
        else:
            appfam.app_scenario(ctx)
    else:
        mpiops.ops_scenario(ctx, prop='C14')


def pipeline(ctx):
    t = ctx.tape
    e = C.E()
    max_ranks = 12 if ctx.tier == 'thorough' else 8
    deep = ctx.tier == 'thorough' and t.flag(1, 4)
    P = C.Problem(ctx, max_ranks=max_ranks, max_frames=150 if deep else 60, max_traj=36 if deep else 24, max_len=12 if deep else 9,
                  allow_rmsd=True)
    k, cutoff = P.draw_stop(ctx)
    algo = t.choice(('kcenters', 'kcenters_tri', 'hybrid0', 'hybrid'))
    if algo == 'kcenters_tri' and not P.is_metric():
        algo = 'kcenters'
    n_iters = t.irange(1, 3) if algo == 'hybrid' else 0
    rseed = 0 if t.flag(1, 8) else t.draw(1000)        # zero is a seed like any other
    poison = t.draw(7) if t.flag(2, 3) else 0
    twice = t.flag(1, 4)
    spelling = t.draw(2)
    ctx.scenario.update(P.describe(), family='pipeline', algo=algo, n_clusters=k, dist_cutoff=cutoff,
                        n_iters=n_iters, random_state=rseed, poison=poison)
    ctx.fp('pipeline', P.N, tuple(P.lengths), P.dim, P.dtype, P.metric_name, algo, k, cutoff, n_iters, poison,
           P.X.tobytes())
    metric = P.sut_metric()
    kw = C.kc_kwargs(k, cutoff, spelling)
    lengths = np.array(P.lengths)
    Xser = P.wrap(P.X.copy())

    # ---- serial reference (world of size one)
    if algo.startswith('kcenters'):
        serial = ctx.sut(e['kcenters'].kcenters, Xser, metric, use_triangle_inequality=(algo == 'kcenters_tri'), **kw)
    else:
        serial = ctx.sut(e['hybrid'].hybrid, Xser, metric, n_iters=0, **kw)
    g, tie_free = M.greedy_run(P.X, P.model_metric, k, cutoff, tol=P.tie_tol(), cut_tol=P.cut_tol(), noise=P.noise)

    # ---- distributed run
    snaps = [P.local(r) for r in range(P.N)]
    locals_ = [None] * P.N
    mpi_ops = e['mpi'].ops

    def rank_fn(r):
        local = locals_[r]
        if algo.startswith('kcenters'):
            res = e['kcenters'].kcenters(local, metric, mpi_mode=True,
                                         use_triangle_inequality=(algo == 'kcenters_tri'), **kw)
        else:
            res = e['hybrid'].hybrid(local, metric, n_iters=n_iters, mpi_mode=True, random_state=rseed, **kw)
        d = mpi_ops.assemble_striped_ragged_array(res.distances, lengths.copy())
        a = mpi_ops.assemble_striped_ragged_array(res.assignments, lengths.copy())
        c = mpi_ops.convert_local_indices(res.center_indices, lengths.copy())
        return dict(ci=[(int(x), int(y)) for x, y in res.center_indices], ld=np.array(res.distances),
                    la=np.array(res.assignments), centers=[clrun.ctr(x) for x in res.centers],
                    d=d, a=a, c=[int(x) for x in c])

    def run_world(suffix):
        locals_[:] = [P.wrap(x.copy()) for x in snaps]        # every execution starts from the same bytes
        with C.Poison(ctx, poison, seed=1 + rseed):
            w = C.make_world(ctx, P.N, poison, suffix=suffix)
            outs = w.run(rank_fn)
        st = w.stats()
        ctx.steps += st['collectives'] + st['decisions']
        ctx.count('collectives', st['collectives'])
        ctx.count('sched_decisions', st['decisions'])
        if st['eager'] and st['max_skew'] > 1:
            ctx.hit('eager_root_ran_ahead')
        if st['reassoc']:
            ctx.fault('allreduce_reassociated', st['reassoc'])
        ctx.fault('eager_bcast', st['eager'])
        if st['decisions'] > 0 and P.N >= 2:
            ctx.nontrivial = True
        ctx.fp(tuple(w.sched_trace))
        return outs

    outs = run_world('')
    check_world(ctx, P, outs, snaps, locals_, algo, n_iters, serial, g, tie_free, k, cutoff)
    if twice and P.N >= 2:
        outs2 = run_world('2')
        for r in range(P.N):
            for key in ('ld', 'la', 'd', 'a'):
                require(C.same(outs[r][key], outs2[r][key]), 'schedule_dependent_result',
                        lambda: 'rank %d %s differs between two schedules of the same scenario' % (r, key))
            require(outs[r]['c'] == outs2[r]['c'] and outs[r]['ci'] == outs2[r]['ci'], 'schedule_dependent_result',
                    lambda: 'rank %d centres differ between two schedules: %s vs %s' % (r, outs[r]['c'], outs2[r]['c']))
        ctx.hit('schedule_independence_checked')


def check_world(ctx, P, outs, snaps, locals_, algo, n_iters, serial, g, tie_free, k, cutoff):
    N = P.N
    n = P.n
    # reach probes
    owners = [ci[0] for ci in outs[0]['ci']]
    if len(set(owners)) > 1:
        ctx.hit('farthest_point_changed_owner')
    if any(len(ix) == 1 for ix in P.l2g):
        ctx.hit('rank_with_single_frame')
    for trajs in M.stripe(P.lengths, N):
        ls = [P.lengths[i] for i in trajs]
        if len(ls) >= 2 and len(set(ls)) == 1 and len(set(P.lengths)) > 1:
            ctx.hit('equal_length_group_on_rank')
    # inputs untouched on every rank
    for r in range(N):
        require(P.data_unchanged(locals_[r], snaps[r]), 'input_modified', lambda: 'rank %d data array changed' % r)
    # every rank holds the same re-assembled picture
    o0 = outs[0]
    for r in range(N):
        o = outs[r]
        require(len(o['ld']) == len(P.l2g[r]) and len(o['la']) == len(P.l2g[r]), 'bad_shape',
                lambda: 'rank %d returned %d distances for %d local frames' % (r, len(o['ld']), len(P.l2g[r])))
        require(o['ci'] == o0['ci'], 'ranks_disagree', lambda: 'centre list differs between rank 0 and %d: %s vs %s'
                % (r, o0['ci'], o['ci']))
        require(o['c'] == o0['c'], 'ranks_disagree', lambda: 'global centre indices differ on rank %d' % r)
        require(C.same(o['d'], o0['d']) and C.same(o['a'], o0['a']), 'ranks_disagree',
                lambda: 'assembled arrays differ between rank 0 and %d' % r)
        require(len(o['centers']) == len(o['c']), 'center_count_mismatch', 'rank %d' % r)
        for i, cc in enumerate(o['centers']):
            require(M.frame_equal(P.metric_name, cc, P.X[o['c'][i]]), 'center_not_frame',
                    lambda: 'rank %d: centre %d coordinates %s are not global frame %d %s' %
                    (r, i, cc, o['c'][i], P.X[o['c'][i]]))
    d, a, c = np.asarray(o0['d']), np.asarray(o0['a']), o0['c']
    require(d.shape == (n,) and a.shape == (n,), 'bad_shape', lambda: 'assembled shapes %s %s for %d frames' %
            (d.shape, a.shape, n))
    # the assembled arrays are the local arrays put back in trajectory order
    for r in range(N):
        require(np.array_equal(d[P.l2g[r]], outs[r]['ld']) and np.array_equal(a[P.l2g[r]], outs[r]['la']),
                'reassembly_wrong', lambda: 'rank %d: re-assembled values are not its local values in trajectory order' % r)
        for (owner, li), gi in zip(outs[r]['ci'], c):
            require(0 <= owner < N and 0 <= li < len(P.l2g[owner]) and P.l2g[owner][li] == gi, 'index_conversion_wrong',
                    lambda: '(rank %d, local %d) converted to global %d, striping says %s' %
                    (owner, li, gi, P.l2g[owner][li] if 0 <= owner < N and 0 <= li < len(P.l2g[owner]) else None))
    if n_iters == 0:
        if tie_free:
            require(list(map(int, serial.center_indices)) == c, 'differs_from_serial',
                    lambda: 'centres serial %s vs distributed %s (N=%d lengths=%s)' %
                    (list(map(int, serial.center_indices)), c, N, P.lengths))
            require(np.array_equal(serial.assignments, a), 'differs_from_serial',
                    lambda: 'labels differ from the serial run at frames %s' %
                    np.where(np.asarray(serial.assignments) != a)[0][:8].tolist())
            require(P.same_dist(serial.distances, d), 'differs_from_serial',
                    lambda: 'distances differ from the serial run at frames %s' %
                    np.where(np.asarray(serial.distances) != d)[0][:8].tolist())
            ctx.hit('tie_free_equality_checked')
        else:
            ctx.count('equality_skipped_ties')
        # invariants hold with or without ties
        M.check_consistent(P.X, P.metric_name, c, o0['centers'], a.astype(int), d, where='distributed k-centers:')
        # stopping rule, model side (ties allowed: count and radius bound)
        kk = np.inf if k is None else k
        cc = 0 if cutoff is None else cutoff
        if tie_free:
            require(len(c) == len(g.centers), 'wrong_stop', lambda: 'distributed run stopped at %d centres, greedy '
                    'model at %d (k=%s cutoff=%s)' % (len(c), len(g.centers), k, cutoff))
    else:
        M.check_consistent(P.X, P.metric_name, c, o0['centers'], a.astype(int), d, where='distributed k-hybrid:')
        require(len(c) == len(serial.center_indices) or not tie_free, 'cluster_count_changed',
                lambda: 'k-medoids stage changed the number of clusters: %d -> %d' % (len(serial.center_indices), len(c)))
        if tie_free:
            c0 = M.cost(serial.distances)
            c1 = M.cost(d)
            # reported RMSD values carry batch-dependent last bits (serial and distributed runs evaluate other batches)
            require(c1 <= c0 * (1 + (2e-3 if P.metric_name == 'rmsd' else 1e-12)) + 1e-300, 'cost_increased',
                    lambda: 'distributed k-medoids raised the cost %.17g -> %.17g' % (c0, c1))
        require(len(set(c)) == len(c), 'duplicate_center', lambda: 'centres %s' % c)
        ctx.hit('kmedoids_stage_checked')
