"""C15 — stored and bulk-loaded data come back bit-identical.

Parallel trajectory loading runs on simpool: worker count, which chunk is
dispatched to which virtual worker, completion order, how much background
progress happens before each pool API call, and read faults are tape decisions;
workers see module globals as forked copies.  The striped loaders run on N
simulated MPI ranks.  ra.save/ra.load round trips complete the statement.
"""
import os

import numpy as np

from ..core.run import require, Skip
from ..engines import simpool
from ..engines.simmpi import SimViolation
from . import clcommon as C
from . import mpiops

ID = 'C15'
RULE = ('Each run draws one of: load_as_concatenated (1..12 generated trajectory files in xtc/h5/nc format, lengths 1..12, '
        'stride 1..5, atom selections, global kwargs or per-file args incl. frame= entries, lengths hint or sounding, list or '
        'generator input, processes=None/1..6) or concatenate_trjs under the simulated pool (worker count, dispatch and '
        'completion order, lazy/eager background progress, read faults); an ra.save/ra.load round trip (1..120 rows, thorough '
        'up to 1100; 1-D/multi-dimensional elements; six dtypes; compression 0/1/9; full, strided, key-subset loads); or a '
        'striped loader on 1..8 simulated ranks. Non-trivial: >= 2 pool chunks were dispatched with a tape-chosen order, or '
        '>= 2 rows/ranks were involved; distinct = digest of (configuration, data, schedule, faults).')
BUDGET = {'quick': dict(runs=1600, wall_s=55, chunk=20), 'thorough': dict(runs=40000, wall_s=780, chunk=40)}
COMPONENTS = {'real': ['enspara.util.load (load_as_concatenated, concatenate_trjs, sound_trajectory, workers)', 'enspara.ra save/load',
                       'enspara.mpi.io', 'mdtraj readers/writers', 'PyTables/HDF5', 'the file system (per-run scratch directory)'],
              'stub': ['multiprocessing (simpool: Pool/AsyncResult/Array with per-worker module-global overlays)',
                       'MPI library (simmpi)', 'read faults injected at enspara.util.load.md.load']}
ASSUMPTIONS = ['tasks are atomic (each writes its own window of the shared buffer); the explored interleavings are orderings, '
               'worker counts and how far the workers have got at each pool API call',
               'under an injected read fault the call may raise any exception or return exactly the fault-free data',
               'a single-row save loads back as a plain array (documented behaviour of ra.load)']
REACH_EXPECTED = ['same_trajectory_object_listed_twice', 'save_over_existing_file', 'key_asked_for_twice', 'retry_after_fault', 'alloc_fault_run', 'rows_longer_than_a_chunk', 'lazy_workers', 'eager_workers', 'worker_switch', 'multi_chunk_dispatch', 'frame_entries', 'per_file_args',
                  'lengths_hint', 'generator_input', 'read_fault_run', 'rows_cross_padding_10', 'rows_cross_padding_100',
                  'strided_load', 'key_subset_load', 'rect_array_roundtrip', 'concatenate_trjs_run', 'mixed_topologies', 'striped_loader_run']
FORMATS = ('xtc', 'h5', 'nc')      # not trr: mdtraj's TRR reader corrupts the heap with atom_indices


def topology(n_atoms):
    import mdtraj as md
    top = md.Topology()
    ch = top.add_chain()
    names = ('N', 'CA', 'C')
    res = None
    for i in range(n_atoms):
        if i % 3 == 0:
            res = top.add_residue('ALA', ch)
        el = md.element.nitrogen if i % 3 == 0 else md.element.carbon
        top.add_atom(names[i % 3], el, res)
    return top


def scenario(ctx):
    t = ctx.tape
    fam = t.draw(10)
    if fam < 5:
        fam_load_concat(ctx)
    elif fam < 6:
        fam_concat_trjs(ctx)
    elif fam < 9:
        fam_ra_roundtrip(ctx)
    else:
        ctx.hit('striped_loader_run')
        mpiops.ops_scenario(ctx, prop='C15', only=('load_npy_as_striped', 'load_h5_as_striped', 'load_trajectory_as_striped'))


# ------------------------------------------------------------------ parallel loading
def fam_load_concat(ctx):
    import mdtraj as md
    from enspara.util import load as L
    t = ctx.tape
    ext = t.choice(FORMATS)
    n_files = t.irange(1, 12)
    n_atoms = t.irange(1, 9)
    top = topology(n_atoms)
    d = ctx.scratch()
    rs = np.random.RandomState(t.draw(2 ** 31 - 1))
    files = []
    for i in range(n_files):
        Lf = 1 if t.flag(1, 6) else t.irange(1, 12)
        x = (rs.rand(Lf, n_atoms, 3) * 4 + i).astype('float32')
        fn = os.path.join(d, 'trj%02d.%s' % (i, ext))
        md.Trajectory(x, top).save(fn)
        files.append(fn)
    base = {} if ext == 'h5' else {'top': top}
    sel = None
    if n_atoms >= 2 and t.flag(1, 3):
        k = t.irange(1, n_atoms)
        sel = np.sort(np.array(t.perm(n_atoms)[:k]))
    style = t.draw(3)        # 0 global kwargs, 1 per-file args, 2 per-file args with frame= entries
    per_file = []
    gstride = t.irange(1, 5)
    for i in range(n_files):
        kw = dict(base)
        if sel is not None:
            kw['atom_indices'] = sel
        if style == 0:
            kw['stride'] = gstride
        elif style == 1:
            if t.flag():
                kw['stride'] = t.irange(1, 4)
        else:
            if t.flag(1, 2):
                with md.open(files[i]) as fh:
                    nfr = len(fh)
                kw['frame'] = t.draw(nfr)
            elif t.flag():
                kw['stride'] = t.irange(1, 3)
        per_file.append(kw)
    if style == 2:
        ctx.hit('frame_entries')
    if style >= 1:
        ctx.hit('per_file_args')
    expected = [md.load(f, **kw).xyz for f, kw in zip(files, per_file)]
    exp_len = [len(e) for e in expected]
    hint = t.flag(1, 3)
    gen_input = t.flag(1, 4)
    processes = None if t.flag(1, 3) else t.irange(1, 6)
    faults = None
    if t.flag(1, 5):
        victim = t.draw(n_files)
        faults = {os.path.basename(files[victim]): t.choice(('oserror', 'short'))}
        ctx.hit('read_fault_run')
    alloc_fault = None
    if faults is None and t.flag(1, 12):
        alloc_fault = t.choice(('enospc', 'enomem'))
        faults = {'<shared array>': alloc_fault}
        ctx.hit('alloc_fault_run')
    ctx.scenario.update(family='load_as_concatenated', format=ext, files=n_files, lengths=exp_len, atoms=n_atoms,
                        selection=None if sel is None else sel.tolist(), style=('kwargs', 'args', 'args+frame')[style],
                        stride=gstride if style == 0 else [kw.get('stride') for kw in per_file],
                        frames=[kw.get('frame') for kw in per_file], lengths_hint=hint, generator_input=gen_input,
                        processes=processes, faults=faults)
    ctx.fp('lac', ext, n_files, tuple(exp_len), n_atoms, style, hint, gen_input, processes, str(faults),
           tuple(sorted((k, str(v)) for kw in per_file for k, v in kw.items() if k != 'top')))
    kwargs = {}
    if hint:
        kwargs['lengths'] = list(exp_len)
        ctx.hit('lengths_hint')
    if processes is not None:
        kwargs['processes'] = processes
    if style == 0:
        kwargs.update(per_file[0])
    else:
        kwargs['args'] = [dict(kw) for kw in per_file]
    arg_files = (f for f in list(files)) if gen_input else list(files)
    if gen_input:
        ctx.hit('generator_input')
    with simpool.installed(ctx, read_faults=None if alloc_fault else faults, alloc_fault=alloc_fault) as sim:
        if faults:
            exc = None
            try:
                lengths, xyz = L.load_as_concatenated(arg_files, **kwargs)
            except SimViolation:
                raise
            except Exception as e:      # under a read fault the call may fail, it may not return wrong data
                exc = e
            if exc is not None:
                ctx.count('fault_runs_raised')
                note_pool(ctx, sim)
                retry = True
            else:
                retry = False
                ctx.count('fault_runs_returned')
        else:
            retry = False
            lengths, xyz = ctx.sut(L.load_as_concatenated, arg_files, **kwargs)
    if retry:
        # the fault is gone (the file is readable again, space was freed): the same call in the same process must now
        # succeed with the right data - a failed load may not leave anything behind that a later one trips over
        with simpool.installed(ctx) as sim:
            lengths, xyz = ctx.sut(L.load_as_concatenated, list(files), **kwargs)
        ctx.hit('retry_after_fault')
    note_pool(ctx, sim)
    want = np.concatenate(expected)
    require(list(map(int, lengths)) == exp_len, 'wrong_lengths', lambda: 'lengths %s, individually loaded files have %s' %
            (list(lengths), exp_len))
    xyz = np.asarray(xyz)
    require(xyz.shape == want.shape and xyz.dtype == want.dtype, 'wrong_shape', lambda: 'got %s %s, expected %s %s' %
            (xyz.shape, xyz.dtype, want.shape, want.dtype))
    if not np.array_equal(xyz, want):
        bad = np.where((xyz != want).any(axis=(1, 2)))[0]
        starts = np.concatenate([[0], np.cumsum(exp_len)])
        fidx = sorted({int(np.searchsorted(starts, b, side='right') - 1) for b in bad})
        holes = bool(np.all(xyz[bad] == 0))
        raise SimViolation('not_concatenation_in_file_order', 'frames %s (files %s) differ from the individually loaded data%s; '
                           'workers=%s' % (bad[:8].tolist(), fidx[:6], ' (never written: zeros)' if holes else '', sim.pools))


def note_pool(ctx, sim):
    if sim.dispatches >= 2:
        ctx.nontrivial = True
        ctx.hit('multi_chunk_dispatch')
    ctx.fp('dispatches', sim.dispatches)


def fam_concat_trjs(ctx):
    import mdtraj as md
    from enspara.util import load as L
    t = ctx.tape
    n_atoms = t.irange(3, 9)
    top = topology(n_atoms)
    n = t.irange(1, 10)
    rs = np.random.RandomState(t.draw(2 ** 31 - 1))
    atoms = t.choice((None, 'name CA', 'name N or name C', 'name CA or name N or name C', 'index >= 1', 'index >= 1'))
    tops = [top]
    if atoms is not None and not atoms.startswith('index') and t.flag(1, 3):
        # two different systems whose selections have the same number of atoms (other atom order, an extra atom type)
        from .c10 import make_top
        n_res = t.irange(1, 3)
        tops = [make_top(n_res, False), make_top(n_res, True)]
        ctx.hit('mixed_topologies')
    trjs = []
    for i in range(n):
        tp = tops[t.draw(len(tops))]
        trjs.append(md.Trajectory((rs.rand(t.irange(1, 8), tp.n_atoms, 3) + i).astype('float32'), tp))
    if n >= 2 and t.flag(1, 3):
        # the same trajectory object is listed twice (a replica analysed under two labels)
        i_, j_ = t.perm(n)[:2]
        trjs[j_] = trjs[i_]
        ctx.hit('same_trajectory_object_listed_twice')
    snap_in = [(x.n_atoms, x.xyz.copy()) for x in trjs]
    n_procs = None if t.flag(1, 3) else t.irange(1, 5)
    ctx.scenario.update(family='concatenate_trjs', trajectories=n, lengths=[len(x) for x in trjs], atoms=atoms, n_procs=n_procs)
    ctx.fp('ct', n, tuple(len(x) for x in trjs), n_atoms, atoms, n_procs)
    ctx.hit('concatenate_trjs_run')
    with simpool.installed(ctx) as sim:
        out = ctx.sut(L.concatenate_trjs, trjs, atoms=atoms, n_procs=n_procs)
    note_pool(ctx, sim)
    require(all(x.n_atoms == na_ and np.array_equal(x.xyz, xyz_) for x, (na_, xyz_) in zip(trjs, snap_in)), 'input_modified',
            'concatenate_trjs changed the trajectories it was given')
    parts = [x if atoms is None else x.atom_slice(x.top.select(atoms)) for x in trjs]
    want = np.concatenate([p.xyz for p in parts])
    require(np.asarray(out.xyz).shape == want.shape and np.array_equal(out.xyz, want), 'not_concatenation_in_file_order',
            lambda: 'concatenate_trjs result differs from the concatenation of the (sliced) inputs')
    require(out.n_atoms == parts[0].n_atoms, 'wrong_topology', 'topology does not match the slice')


# ------------------------------------------------------------------ ra.save / ra.load
def fam_ra_roundtrip(ctx):
    from enspara import ra
    t = ctx.tape
    big = (999, 1000, 1001, 1100) if ctx.tier == 'thorough' else ()
    pick = t.draw(8)
    if pick == 0:
        n_rows = t.choice((9, 10, 11, 12))
    elif pick == 1:
        n_rows = t.choice((99, 100, 101, 120) + big)
    else:
        n_rows = t.irange(1, 30)
    if n_rows >= 11:
        ctx.hit('rows_cross_padding_10')
    if n_rows >= 101:
        ctx.hit('rows_cross_padding_100')
    dt = t.choice(('int16', 'int32', 'int64', 'float32', 'float64', 'uint8'))
    dim = t.choice((0, 0, 1, 3))
    equal = t.flag(1, 4)
    L0 = t.irange(1, 7)
    lens = [L0 if equal else t.irange(1, 7) for _ in range(n_rows)]
    rect = t.flag(1, 6)
    if t.flag(1, 6):
        # rows as long as real trajectories: longer than one storage chunk of the file format
        n_rows = t.irange(1, 4)
        dt = t.choice(('int64', 'float64', 'int64', 'float64', 'int32', 'float32'))
        lens = [L0 if equal else t.irange(1, 7) for _ in range(n_rows)]
        for _ in range(t.irange(1, 2)):
            lens[t.draw(n_rows)] = t.choice((8191, 8192, 8193, 10000, 16385, 20001) if dim == 0 else (2730, 2731, 3000, 5461, 6000))
        rect = False
        ctx.hit('rows_longer_than_a_chunk')
    rows = []
    for i, Ln in enumerate(lens):
        shp = (Ln,) if dim == 0 else (Ln, dim)
        base = (np.arange(int(np.prod(shp))).reshape(shp) + 7 * i + 1)
        rows.append((base % 200).astype(dt) if dt == 'uint8' else (base * (1.5 if dt.startswith('f') else 1)).astype(dt))
    fn = os.path.join(ctx.scratch(), 'arr.h5')
    comp = t.choice((0, 1, 9))
    tag = t.choice(('arr', 'arr', 'x'))
    ctx.scenario.update(family='ra_roundtrip', rows=n_rows, lengths=lens[:15], dtype=dt, elem_dim=dim, rect=rect,
                        compression=comp, tag=tag)
    ctx.fp('rt', n_rows, tuple(lens), dt, dim, rect, comp, tag)
    if n_rows >= 2:
        ctx.nontrivial = True
    if rect:
        arr = np.stack([r[:min(lens)] for r in rows]) if n_rows > 1 else rows[0]
        snap = arr.copy()
        ctx.sut(ra.save, fn, arr, compression_level=comp, tag=tag)
        require(np.array_equal(arr, snap), 'input_modified', 'ra.save modified the array')
        stride = t.irange(1, 4)
        back = ctx.sut(ra.load, fn, stride=stride) if stride > 1 else ctx.sut(ra.load, fn)
        back = np.asarray(back)
        want = arr[::stride]
        require(back.dtype == arr.dtype and back.shape == want.shape and np.array_equal(back, want), 'roundtrip_differs',
                lambda: 'rectangular array %s %s stride %d came back as %s %s' % (arr.shape, arr.dtype, stride, back.shape, back.dtype))
        ctx.hit('rect_array_roundtrip')
        return
    A = ra.RaggedArray(np.concatenate(rows), lengths=lens)
    if t.flag(1, 5):
        # the path already holds another array (more rows, other row-name width): saving replaces the file's content
        other = [((np.arange(3) + k_) % 120).astype(dt) for k_ in range(n_rows + t.choice((1, 2, 9, 95)))]
        ctx.sut(ra.save, fn, ra.RaggedArray(other), compression_level=comp, tag=tag)
        ctx.hit('save_over_existing_file')
    ctx.sut(ra.save, fn, A, compression_level=comp, tag=tag)
    full = ctx.sut(ra.load, fn)
    check_rows(full, rows, dt, 'full load')
    # strided load == slicing the full load
    long_rows = max(lens) > 1000
    if t.flag() or long_rows:
        s = t.choice((3, 5, 7, 2, 4)) if long_rows else t.irange(2, 5)
        got = ctx.sut(ra.load, fn, stride=s)
        check_rows(got, [r[::s] for r in rows], dt, 'load(stride=%d)' % s)
        ctx.hit('strided_load')
    # a subset of rows, in the order asked for
    if n_rows >= 2 and t.flag():
        import tables
        with tables.open_file(fn) as h:
            names = [k.name for k in h.list_nodes('/')]
        require(len(names) == n_rows, 'row_count', lambda: '%d nodes for %d rows' % (len(names), n_rows))
        # node names in creation order: tag_<zero padded index>
        by_index = sorted(names, key=lambda s_: int(s_.rsplit('_', 1)[1]))
        m = t.irange(2, min(n_rows, 6))
        pick_idx = t.perm(n_rows)[:m]
        if t.flag():
            pick_idx = sorted(pick_idx)
        if t.flag(1, 4):
            # a row asked for twice (a resample with replacement) comes back twice
            pick_idx = list(pick_idx) + [pick_idx[t.draw(len(pick_idx))]]
            ctx.hit('key_asked_for_twice')
        keys = [by_index[i] for i in pick_idx]
        s = t.irange(1, 3)
        got = ctx.sut(ra.load, fn, keys=keys, stride=s)
        check_rows(got, [rows[i][::s] for i in pick_idx], dt, 'load(keys=%s, stride=%d)' % (keys, s))
        ctx.hit('key_subset_load')


def check_rows(got, rows, dt, what):
    if len(rows) == 1 and isinstance(got, np.ndarray):
        require(got.dtype == np.dtype(dt) and got.shape == rows[0].shape and np.array_equal(got, rows[0]), 'roundtrip_differs',
                lambda: '%s: single row came back as %s %s' % (what, got.shape, got.dtype))
        return
    require(hasattr(got, 'lengths'), 'roundtrip_type', lambda: '%s returned %s' % (what, type(got).__name__))
    require([int(x) for x in got.lengths] == [len(r) for r in rows], 'roundtrip_lengths',
            lambda: '%s: row lengths %s, saved %s' % (what, [int(x) for x in got.lengths][:12], [len(r) for r in rows][:12]))
    require(got._data.dtype == np.dtype(dt), 'roundtrip_dtype', lambda: '%s: dtype %s, saved %s' % (what, got._data.dtype, dt))
    for i, r in enumerate(rows):
        gi = np.asarray(got[i])
        if gi.shape != r.shape or not np.array_equal(gi, r):
            raise SimViolation('roundtrip_differs', '%s: row %d came back as %s, saved %s' % (what, i, gi.tolist()[:6], r.tolist()[:6]))
