"""C18 — joint counts are exact; mutual information obeys its algebraic laws.

The compiled counting kernel runs on simgomp (virtual-thread team, tape-chosen
order, snapshot-isolated memory, LWW merge) over a poisoned, red-zoned heap;
invalid inputs are probed in a forked child because the failure mode of a
missing check in bounds-check-free code is a dead interpreter.  The algebraic
laws are evaluated as labelled pure post-conditions on the simulated outputs.
"""
import os
import pickle
import signal

import numpy as np

from ..core.run import require
from ..engines import native
from ..engines.simmpi import SimViolation
from .c13 import gomp_config, layout

ID = 'C18'
RULE = ('Each run draws feature trajectories (1..40 frames, 1..5 features per side, 2..5 states per side, equal or different '
        'on the two sides, self or cross), integer element types (all eight, equal or mixed), memory layouts, the OpenMP team '
        'size (1..16 or one thread per feature), virtual-thread order, merge order and heap poison; a quarter of the runs are '
        'invalid inputs (negative ids, ids >= declared states, different lengths) probed in a forked child. Non-trivial: a team '
        'of >= 2 virtual threads ran the counting region under snapshot isolation with >= 2 features on the first side; '
        'distinct = digest of (data, dtypes, layouts, team, schedule).')
BUDGET = {'quick': dict(runs=6000, wall_s=55, chunk=50), 'thorough': dict(runs=150000, wall_s=780, chunk=100)}
COMPONENTS = {'real': ['compiled enspara.info_theory.libinfo (unmodified generated C)', 'enspara.info_theory.mutual_info',
                       'enspara.info_theory.entropy', 'numpy'],
              'stub': ['OpenMP runtime (simgomp)', 'heap allocator (simalloc)']}
ASSUMPTIONS = ['at least one frame per trajectory (zero frames is outside the statement)',
               'state counts >= 2 per feature for channel-capacity normalisation (the routine asserts it)',
               'floating tolerances for the algebraic laws: 1e-9 absolute / relative']
REACH_EXPECTED = ['weights_almost_normalised', 'invalid_length_long_inputs', 'ids_beyond_the_signed_range_of_the_other_side', 'invalid_negative_beside_unsigned', 'state_counts_in_a_narrow_integer_type', 'pooled_trajectories_serial_variant', 'weighted_many_states_narrow_type', 'views_sharing_first_element', 'long_trajectory', 'team_ge_2', 'one_thread_per_feature', 'different_feature_counts', 'different_state_counts',
                  'mixed_dtypes', 'self_counts', 'invalid_negative', 'invalid_too_large', 'invalid_length', 'invalid_mixed_dtypes', 'pooled_trajectories',
                  'weighted_uniform', 'relabel_invariance', 'permutation_invariance', 'schedule_pair_compared']
INTS = ('int8', 'int16', 'int32', 'int64', 'uint8', 'uint16', 'uint32', 'uint64')


def setup():
    native.lib()


def exact_counts(A, B, n_a, n_b):
    fa, fb = A.shape[1], B.shape[1]
    jc = np.zeros((fa, fb, n_a, n_b), dtype=np.int64)
    if len(A) > 2000:
        A64, B64 = A.astype(np.int64), B.astype(np.int64)
        for i in range(fa):
            for j in range(fb):
                jc[i, j] = np.bincount(A64[:, i] * n_b + B64[:, j], minlength=n_a * n_b).reshape(n_a, n_b)
        return jc
    Al, Bl = A.tolist(), B.tolist()
    for ra, rb in zip(Al, Bl):
        for i, u in enumerate(ra):
            for j, v in enumerate(rb):
                jc[i, j, u, v] += 1
    return jc


def model_mi(jc):
    jc = np.asarray(jc, dtype=np.float64)
    out = np.zeros(jc.shape[:2])
    for i in range(jc.shape[0]):
        for j in range(jc.shape[1]):
            c = jc[i, j]
            n = c.sum()
            if n == 0:
                continue
            p = c / n
            px, py = p.sum(1), p.sum(0)
            m = p > 0
            out[i, j] = float((p[m] * np.log(p[m] / np.outer(px, py)[m])).sum())
    return out


def model_entropy(counts):
    c = np.asarray(counts, dtype=np.float64)
    p = c / c.sum()
    p = p[p > 0]
    return float(-(p * np.log(p)).sum())


def run_kernel(ctx, fn, args, T, dec, iso=True):
    native.gomp(T, iso, dec)
    native.gomp_stats(reset=True)
    native.reset_redzone()
    try:
        res = fn(*args)
    finally:
        st = native.gomp_stats()
        bad = native.redzone_bad()
        native.gomp(1, False, None)
    if bad:
        raise SimViolation('out_of_bounds_write', '%d heap buffers with damaged red zones after the call' % bad)
    if st['sync_seen']:
        ctx.count('critical_sections_in_regions', st['sync_seen'])
    ctx.steps += st['switches'] + st['barriers']
    ctx.count('parallel_regions', st['regions'])
    ctx.count('virtual_thread_switches', st['switches'])
    ctx.count('isolated_regions', st['iso_regions'])
    if st.get('overlap_bytes'):
        # two threads of one team changed the same bytes of a NumPy buffer between two barriers, to the same value: their
        # write sets overlap, which unsynchronised code only survives when the two happen not to run at the same time
        # (zero / accumulate / square root of one output cell by two owners, say)
        raise SimViolation('threads_write_the_same_cells', '%d bytes were changed (to the same value) by more than one thread of the team '
                           '(T=%d) within one barrier epoch and outside any critical section' % (st['overlap_bytes'], st['max_team']))
    if st['conflict_bytes']:
        # two virtual threads of one team wrote different values to the same bytes of a NumPy buffer between two
        # barriers: in a race-free region the threads' write sets are disjoint
        raise SimViolation('data_race_write_write', '%d bytes written with different values by more than one thread of the '
                           'team (T=%d) within one barrier epoch' % (st['conflict_bytes'], st['max_team']))
    return res, st


def scenario(ctx):
    t = ctx.tape
    poison = t.draw(7)
    native.poison(poison, 1 + t.draw(1000))
    native.install_allocator()
    try:
        if poison:
            ctx.fault('poison_' + native.POISON_MODES[poison])
        if t.flag(1, 4):
            invalid(ctx, t)
        else:
            valid(ctx, t)
    finally:
        native.gomp(1, False, None)
        native.uninstall_allocator()
        native.poison(0, 1)


def gen_features(t, n_frames, n_feat, n_states, dt):
    return np.array(t.block(n_frames * n_feat, n_states), dtype=np.int64).reshape(n_frames, n_feat).astype(dt)


def valid(ctx, t):
    from enspara.info_theory import libinfo, mutual_info as mi, entropy
    nfr = t.irange(1, 40)
    self_mode = t.flag(1, 3)
    fa = t.irange(1, 5)
    long_traj = t.flag(1, 40)
    if long_traj:
        # long trajectories, around the sizes where fast paths tend to switch
        nfr = t.choice((4096, 32768, 33000, 65537))
        fa = t.irange(1, 3)
        ctx.hit('long_trajectory')
    fb = fa if t.flag(1, 2) else t.irange(1, 5 if not long_traj else 3)
    na = t.irange(2, 5)
    nb = na if t.flag(1, 2) else t.irange(2, 5)
    dta = t.choice(INTS)
    dtb = dta if t.flag(2, 3) else t.choice(INTS)
    if not self_mode and not long_traj and t.flag(1, 12):
        # one side unsigned with ids its signed counterpart of the same width cannot hold: harmonising the two element types
        # must not wrap them
        if t.flag():
            dta, dtb, na = 'uint8', 'int8', t.irange(129, 200)
        else:
            dta, dtb, nb = 'int8', 'uint8', t.irange(129, 200)
        ctx.hit('ids_beyond_the_signed_range_of_the_other_side')
    A = gen_features(t, nfr, fa, na, dta)
    if self_mode:
        B, fb, nb, dtb = A, fa, na, dta
        ctx.hit('self_counts')
    else:
        B = gen_features(t, nfr, fb, nb, dtb)
    if fa != fb:
        ctx.hit('different_feature_counts')
    if na != nb:
        ctx.hit('different_state_counts')
    if dta != dtb:
        ctx.hit('mixed_dtypes')
    Al = layout(ctx, t, A, ('C', 'C', 'F', 'strided', 'neg', 'offset'))
    Bl = Al if self_mode else layout(ctx, t, B, ('C', 'C', 'F', 'strided', 'neg', 'offset'))
    if not self_mode and dta == dtb and fa == fb and t.flag(1, 5):
        # two different views of ONE buffer that start at the same element: X = P[:, :f], Y = P[:, ::2][:, :f]
        Pbuf = np.zeros((nfr, 2 * fa), dtype=dta)
        Pbuf[:, :fa] = A
        Pbuf[:, fa:] = B
        Pbuf %= np.asarray(min(na, nb), dtype=dta)      # both views must stay inside both state counts
        Al, Bl = Pbuf[:, :fa], Pbuf[:, ::2][:, :fa]
        A, B = np.array(Al), np.array(Bl)
        ctx.hit('views_sharing_first_element')
    mode = t.draw(6, 'gomp')
    if mode == 1:
        T = fa
        ctx.hit('one_thread_per_feature')
        dec = t.block(8 * T + 8, 64, 'gomp')
    else:
        T, dec = gomp_config(ctx, t, 0)
    entry = t.choice(('kernel', 'joint_counts', 'joint_counts_default_n'))
    if dta != dtb and entry == 'kernel':
        entry = 'joint_counts'
    ctx.scenario.update(kind='valid', frames=nfr, features=[fa, fb], states=[na, nb], dtypes=[dta, dtb], self=self_mode,
                        team=T, entry=entry, A=A[:8].tolist(), B=None if self_mode else B[:8].tolist())
    ctx.fp('c18', nfr, fa, fb, na, nb, dta, dtb, self_mode, Al.strides, Bl.strides, T, tuple(dec[:2 * T]), entry,
           A.tobytes(), b'' if self_mode else B.tobytes())
    As, Bs = Al.copy(), Bl.copy()
    want_na, want_nb = na, nb
    if entry == 'kernel':
        jc, st = ctx.sut(run_kernel, ctx, libinfo.matrix_bincount2d, (Al, Bl, na, nb), T, dec)
    elif entry == 'joint_counts':
        args = (Al, None, na, None) if self_mode else (Al, Bl, na, nb)
        jc, st = ctx.sut(run_kernel, ctx, mi.joint_counts, args, T, dec)
    else:
        args = (Al,) if self_mode else (Al, Bl)
        jc, st = ctx.sut(run_kernel, ctx, mi.joint_counts, args, T, dec)
        want_na, want_nb = int(A.max()) + 1, int(B.max()) + 1
    if st['max_team'] >= 2:
        ctx.hit('team_ge_2')
        if fa >= 2 and st['iso_regions']:
            ctx.nontrivial = True
    require(np.array_equal(Al, As) and np.array_equal(Bl, Bs), 'input_modified', 'feature arrays changed')
    ref = exact_counts(A, B, want_na, want_nb)
    require(isinstance(jc, np.ndarray) and jc.shape == ref.shape, 'bad_result_shape',
            lambda: 'joint counts shape %s, expected %s' % (getattr(jc, 'shape', None), ref.shape))
    require(np.issubdtype(jc.dtype, np.integer), 'bad_result_type', lambda: str(jc.dtype))
    if not np.array_equal(jc.astype(np.int64), ref):
        w = np.argwhere(jc.astype(np.int64) != ref)[0]
        raise SimViolation('wrong_joint_count', 'T=%d entry=%s dtypes=%s/%s: jc%s = %d, exact count %d (total %d vs %d)' %
                           (T, entry, dta, dtb, tuple(int(x) for x in w), jc[tuple(w)], ref[tuple(w)], int(jc.sum()), int(ref.sum())))
    # same call, another team / order
    if t.flag(1, 2):
        T2, dec2 = gomp_config(ctx, t, 0, 'gomp2')
        jc2, _ = ctx.sut(run_kernel, ctx, libinfo.matrix_bincount2d if entry == 'kernel' else mi.joint_counts,
                         (Al, Bl, na, nb) if entry == 'kernel' else ((Al, None, na, None) if self_mode else (Al, Bl, na, nb)),
                         T2, dec2)
        if entry != 'joint_counts_default_n':
            require(np.array_equal(jc, jc2), 'thread_count_dependent', lambda: 'T=%d and T=%d give different tables' % (T, T2))
        ctx.hit('schedule_pair_compared')
    if not long_traj:
        laws(ctx, t, mi, entropy, A, B, jc, na, nb, self_mode, want_na, want_nb)


def close(a, b, tol=1e-9):
    a, b = np.asarray(a, dtype=float), np.asarray(b, dtype=float)
    return a.shape == b.shape and bool(np.all(np.abs(a - b) <= tol * np.maximum(1.0, np.abs(b))))


def laws(ctx, t, mi, entropy, A, B, jc, na, nb, self_mode, wna, wnb):
    """pure post-conditions on the outputs of the simulated run"""
    fa, fb = A.shape[1], B.shape[1]
    I = ctx.sut(mi.mutual_information, jc)
    ref = model_mi(jc)
    require(close(I, ref), 'mi_wrong_value', lambda: 'mutual_information %s vs model %s' % (I.tolist(), ref.tolist()))
    require(np.all(I >= -1e-12), 'mi_negative', lambda: 'min MI %.3g' % I.min())
    ctx.postcond('mi_nonnegative')
    Ha = [model_entropy(np.bincount(A[:, i].astype(np.int64), minlength=wna)) for i in range(fa)]
    Hb = [model_entropy(np.bincount(B[:, j].astype(np.int64), minlength=wnb)) for j in range(fb)]
    for i in range(fa):
        for j in range(fb):
            require(I[i, j] <= min(Ha[i], Hb[j]) + 1e-9, 'mi_exceeds_marginal_entropy',
                    lambda: 'I[%d,%d]=%.12g > min(H)=%.12g' % (i, j, I[i, j], min(Ha[i], Hb[j])))
    ctx.postcond('mi_le_min_entropy')
    if self_mode:
        require(close(I, I.T), 'mi_not_symmetric', 'self-MI matrix is not symmetric')
        for i in range(fa):
            p = np.bincount(A[:, i].astype(np.int64), minlength=wna) / len(A)
            Hlib = ctx.sut(entropy.shannon_entropy, p)
            require(close(I[i, i], Ha[i]) and close(Hlib, Ha[i]), 'mi_diagonal_not_entropy',
                    lambda: 'I[%d,%d]=%.12g, shannon_entropy=%.12g, model entropy=%.12g' % (i, i, I[i, i], Hlib, Ha[i]))
        ctx.postcond('mi_symmetric_diagonal_entropy')
        # uniform weights
        if A.dtype.kind == 'i' and A.dtype.itemsize >= 2 or A.dtype.kind == 'u':
            w = np.full(len(A), 1.0 / len(A))
            W = ctx.sut(mi.weighted_mi, A.astype(np.int64), w, None, False)
            require(close(W, np.clip(I, 0, None), 1e-8), 'weighted_mi_differs', lambda: 'weighted_mi (uniform) %s vs MI %s' %
                    (np.asarray(W).tolist(), I.tolist()))
            ctx.postcond('weighted_uniform_equals_unweighted')
            ctx.hit('weighted_uniform')
    # the weighted estimator on narrow element types with many states (uniform weights: equals the unweighted estimator)
    if self_mode and t.flag(1, 3):
        k2 = t.choice((12, 16, 20))
        dt2 = t.choice(('uint8', 'int8', 'uint16', 'int16'))
        n2 = t.irange(2, 40)
        A2 = gen_features(t, n2, t.irange(1, 3), k2, dt2)
        I2 = ctx.sut(mi.mutual_information, ctx.sut(mi.joint_counts, A2, None, k2))
        W2 = ctx.sut(mi.weighted_mi, A2, np.full(n2, 1.0 / n2), np.full(A2.shape[1], k2), False)
        require(close(W2, np.clip(I2, 0, None), 1e-8), 'weighted_mi_differs', lambda: 'weighted_mi (uniform weights, %s, %d states) %s vs MI %s' %
                (dt2, k2, np.asarray(W2).tolist(), np.asarray(I2).tolist()))
        ctx.postcond('weighted_uniform_equals_unweighted')
        ctx.hit('weighted_many_states_narrow_type')
    # weights that are uniform but not normalised to the last bit (sums a few 1e-6 off one): the estimator normalises them
    if self_mode and t.flag(1, 3):
        dlt = t.choice((1e-6, -3e-6, 1e-7, 4e-6))
        Wn = ctx.sut(mi.weighted_mi, A.astype(np.int64), np.full(len(A), (1.0 + dlt) / len(A)), np.full(A.shape[1], wna), False)
        require(close(Wn, np.clip(I, 0, None), 1e-8), 'weighted_mi_differs', lambda: 'weighted_mi with uniform weights summing to 1%+.0e: %s vs MI %s' %
                (dlt, np.asarray(Wn).tolist(), np.asarray(I).tolist()))
        ctx.hit('weights_almost_normalised')
    # relabelling states and permuting frames leave MI unchanged
    if t.flag():
        pa, pb = np.array(t.perm(wna)), np.array(t.perm(wnb))
        A2 = pa[A.astype(np.int64)].astype(A.dtype)
        B2 = A2 if self_mode else pb[B.astype(np.int64)].astype(B.dtype)
        jc2 = ctx.sut(mi.joint_counts, A2, None if self_mode else B2, wna, None if self_mode else wnb)
        require(close(ctx.sut(mi.mutual_information, jc2), I), 'mi_not_relabel_invariant', 'MI changed under state relabelling')
        ctx.postcond('relabel_invariant')
        ctx.hit('relabel_invariance')
    else:
        pf = np.array(t.perm(len(A)))
        jc2 = ctx.sut(mi.joint_counts, A[pf], None if self_mode else B[pf], wna, None if self_mode else wnb)
        require(np.array_equal(jc2, jc), 'counts_not_permutation_invariant', 'joint counts changed under frame reordering')
        ctx.postcond('permutation_invariant')
        ctx.hit('permutation_invariance')
    # several trajectories: pooled counts
    if len(A) >= 2 and t.flag():
        cut = t.irange(1, len(A) - 1)
        Xs = [A[:cut], A[cut:]]
        Ys = Xs if self_mode else [B[:cut], B[cut:]]
        Mp = ctx.sut(mi.mi_matrix, Xs, Ys, wna, wnb, False)
        require(close(Mp, I), 'mi_matrix_not_pooled', lambda: 'mi_matrix over two pieces %s vs MI of pooled counts %s' %
                (np.asarray(Mp).tolist(), I.tolist()))
        ctx.postcond('pooled_counts')
        ctx.hit('pooled_trajectories')
        if A.shape[1] == B.shape[1]:
            # the pair-by-pair variant (fills the upper triangle from pooled counts and mirrors it)
            Ms = ctx.sut(mi.mi_matrix_serial, Xs, Ys, np.full(A.shape[1], wna), np.full(B.shape[1], wnb), False)
            iu = np.triu_indices(A.shape[1])
            require(close(np.asarray(Ms)[iu], np.asarray(I)[iu]), 'mi_matrix_not_pooled',
                    lambda: 'mi_matrix_serial over two pieces %s vs MI of pooled counts %s (upper triangles)' % (np.asarray(Ms).tolist(), I.tolist()))
            ctx.hit('pooled_trajectories_serial_variant')
    # channel-capacity normalisation
    sdt = t.choice(('int64', 'int64', 'int8', 'uint8', 'int16', 'int32'))          # state counts are small numbers: any integer type will do
    nx = np.array([t.irange(2, 6) for _ in range(fa)]).astype(sdt)
    ny = nx if (self_mode and t.flag()) else np.array([t.irange(2, 6) for _ in range(fb)]).astype(sdt)
    if sdt in ('int8', 'uint8', 'int16'):
        ctx.hit('state_counts_in_a_narrow_integer_type')
    N = ctx.sut(mi.channel_capacity_normalization, I, nx, ny)
    want = I / np.log(np.minimum(nx[:, None], ny[None, :]).astype(np.float64))
    require(close(N, want), 'normalisation_wrong', lambda: 'entry (i,j) must be divided by log(min(n_x[i], n_y[j])): n_x=%s n_y=%s got %s want %s'
            % (nx.tolist(), ny.tolist(), np.asarray(N).tolist(), want.tolist()))
    require(close(I, model_mi(jc)), 'input_modified', 'channel_capacity_normalization changed its argument')
    ctx.postcond('channel_capacity')
    # relative entropy
    p = np.bincount(A[:, 0].astype(np.int64), minlength=wna).astype(float) + 1
    q = np.bincount(B[:, 0].astype(np.int64), minlength=wnb).astype(float) + 1
    if len(p) == len(q):
        p, q = p / p.sum(), q / q.sum()
        kl = float(ctx.sut(entropy.kl_divergence, p, q))
        require(kl >= -1e-12, 'kl_negative', lambda: 'KL = %.3g' % kl)
        same = bool(np.allclose(p, q, rtol=0, atol=0))
        require((abs(kl) <= 1e-15) == same or (not same and kl > 0), 'kl_zero_iff_equal', lambda: 'KL=%.3g for equal=%s' % (kl, same))
        require(abs(float(ctx.sut(entropy.kl_divergence, p, p))) <= 1e-15, 'kl_zero_iff_equal', 'KL(p||p) != 0')
        ctx.postcond('kl_divergence')


# ---------------------------------------------------------------------------- invalid inputs
def in_child(fn):
    """run fn() in a forked child; returns ('raised', type) | ('returned', obj) | ('crashed', signal)"""
    r, w = os.pipe()
    pid = os.fork()
    if pid == 0:
        try:
            os.close(r)
            signal.alarm(0)
            signal.setitimer(signal.ITIMER_VIRTUAL, 0)
            try:
                out = fn()
                bad = native.redzone_bad()
                msg = ('returned', np.asarray(out).tolist() if np.asarray(out).size < 4000 else 'big', bad)
            except BaseException as e:          # noqa
                msg = ('raised', type(e).__name__, native.redzone_bad())
            os.write(w, pickle.dumps(msg))
        finally:
            os._exit(0)
    os.close(w)
    data = b''
    while True:
        chunk = os.read(r, 65536)
        if not chunk:
            break
        data += chunk
    os.close(r)
    _, status = os.waitpid(pid, 0)
    if os.WIFSIGNALED(status):
        return ('crashed', os.WTERMSIG(status), 0)
    if not data:
        return ('crashed', 'no report', 0)
    return pickle.loads(data)


def invalid(ctx, t):
    from enspara.info_theory import libinfo, mutual_info as mi
    nfr = t.irange(2, 20)
    fa, fb = t.irange(1, 4), t.irange(1, 4)
    na, nb = t.irange(2, 4), t.irange(2, 4)
    signed = ('int8', 'int16', 'int32', 'int64')
    what = t.choice(('negative', 'negative', 'too_large', 'too_large', 'length'))
    dt = t.choice(signed if what == 'negative' else INTS)
    side = t.draw(2)
    # the two sides may have different element types (joint_counts harmonises them); the invalid id sits on `side`
    dts = [dt, dt]
    if t.flag(1, 2):
        dts[1 - side] = t.choice(INTS)
        ctx.hit('invalid_mixed_dtypes')
    A = gen_features(t, nfr, fa, na, dts[0])
    B = gen_features(t, nfr, fb, nb, dts[1])
    info = np.iinfo(dt)
    nside = na if side == 0 else nb
    if what == 'negative' and dt == 'int8' and t.flag(1, 3):
        # the other side is the unsigned type of the same width and the declared range is the whole of it: a negative id is
        # still a negative id (narrowed to the other side's type it would read 255 and pass)
        dts[1 - side] = 'uint8'
        if side == 0:
            B = B.astype('uint8')
            na = 256
        else:
            A = A.astype('uint8')
            nb = 256
        nside = 256
        ctx.hit('invalid_negative_beside_unsigned')
    if what == 'negative':
        tgt = A if side == 0 else B
        # just below zero, or a valid id minus 2**8 / 2**16 (it would wrap into range if the array were narrowed)
        cands = [-1 - t.draw(3)] + [v - 2 ** b for b in (8, 16, 32) for v in (t.draw(nside),) if v - 2 ** b >= info.min]
        tgt[t.draw(nfr), t.draw(tgt.shape[1])] = t.choice(cands)
        ctx.hit('invalid_negative')
    elif what == 'too_large':
        tgt = A if side == 0 else B
        cands = [nside + t.draw(3)] + [v + 2 ** b for b in (8, 16, 32) for v in (t.draw(nside),) if v + 2 ** b <= info.max]
        cands = [c for c in cands if c <= info.max]
        if not cands:
            cands = [info.max]
        tgt[t.draw(nfr), t.draw(tgt.shape[1])] = t.choice(cands)
        ctx.hit('invalid_too_large')
    elif t.flag(1, 5):
        # long inputs whose shorter side has a 'round' length: a check made block by block must still see the surplus frames
        base = t.choice((4096, 8192, 16384))
        extra = t.irange(1, 3)
        fa, fb = t.irange(1, 2), t.irange(1, 2)
        A = gen_features(t, base + (extra if side == 0 else 0), fa, na, dts[0])
        B = gen_features(t, base + (extra if side == 1 else 0), fb, nb, dts[1])
        ctx.hit('invalid_length_long_inputs')
    else:
        if side == 0:
            A = A[:nfr - 1 - t.draw(min(2, nfr - 1))]
        else:
            B = B[:nfr - 1 - t.draw(min(2, nfr - 1))]
        ctx.hit('invalid_length')
    entry = t.choice(('kernel', 'joint_counts'))
    if dts[0] != dts[1]:
        entry = 'joint_counts'        # the kernel itself takes one element type
    T, dec = gomp_config(ctx, t, 0)
    ctx.scenario.update(kind='invalid', what=what, side=side, frames=[len(A), len(B)], features=[fa, fb], states=[na, nb],
                        dtype=dt, entry=entry, team=T, A=A[:8].tolist(), B=B[:8].tolist())
    ctx.fp('c18-invalid', what, side, A.tobytes(), B.tobytes(), na, nb, dt, entry, T)

    def call():
        native.gomp(T, True, dec)
        native.reset_redzone()
        if entry == 'kernel':
            return libinfo.matrix_bincount2d(A, B, na, nb)
        return mi.joint_counts(A, B, na, nb)
    res = in_child(call)
    ctx.count('forked_probes')
    if res[0] == 'crashed':
        raise SimViolation('invalid_input_crash', '%s with %s ids (%s, side %d) killed the interpreter (%s)' %
                           (entry, what, dt, side, res[1]))
    require(res[2] == 0, 'out_of_bounds_write', lambda: '%s input damaged %d red zones' % (what, res[2]))
    require(res[0] == 'raised', 'invalid_input_accepted', lambda: '%s accepted %s input (dtype %s, side %d, states %d/%d): A=%s B=%s -> %s' %
            (entry, what, dt, side, na, nb, A.tolist()[:6], B.tolist()[:6], str(res[1])[:200]))
