"""C19 — results depend on arguments only, not on history, threads or heap contents.

For a catalogue of the numerical API, each run executes one routine on drawn
arguments once as a baseline (zero-filled heap, one thread, fresh copies) and
then under perturbations injected at the allocator seam (seeded poison
patterns), the thread seam (virtual-thread teams with snapshot isolation), and
the history seam (other catalogue calls executed just before, reseeded global
RNG, the same argument buffers reused with other contents first, the call
repeated).  All executions must agree bit for bit and leave arguments intact.
A static part lists every masked-ufunc / np.empty site in the staged sources
and records which were executed under poison.
"""
import ast
import os
import sys

import numpy as np
import scipy.sparse as sp

from ..core.run import require
from ..engines import native
from ..engines.simmpi import SimViolation

ID = 'C19'
RULE = ('Each run draws one routine of the catalogue (kernels, counters, mutual-information and entropy routines, count/eigen/trim/'
        'builder routines, implied timescales, synthetic ensemble, committors, MFPTs, fluxes, paths, assignment helpers, the three '
        'clusterers with a fixed seed, ragged-array operations, rotamer and transition bookkeeping), valid arguments including the '
        'degenerate shapes that make masked branches fire, and 3 perturbed executions out of: heap poison pattern (6 kinds), OpenMP '
        'team size/order with snapshot isolation, 1..4 other catalogue calls immediately before, reseeded and consumed global RNG, the '
        'same argument buffers first used with other contents, the call repeated. Non-trivial: at least one perturbed execution ran '
        'under a non-zero poison pattern or a team >= 2; distinct = digest of (routine, arguments, perturbations).')
BUDGET = {'quick': dict(runs=4000, wall_s=55, chunk=40), 'thorough': dict(runs=120000, wall_s=780, chunk=80)}
COMPONENTS = {'real': ['the numerical API of enspara (see coverage.routines)', 'compiled kernels', 'numpy/scipy/sklearn as used by them'],
              'stub': ['heap allocator (simalloc: poison + red zones)', 'OpenMP runtime (simgomp)', 'MPI library (simmpi, size-one world)']}
ASSUMPTIONS = ['randomised routines are called with an explicit seed; samplers without a seed argument (synthetic_trajectory, bootstrap, '
               'unseeded k-medoids) are excluded and listed under excluded_routines',
               'results are compared bitwise (NaN by position, sparse matrices after canonicalisation); exceptions must be of the same type '
               'in every execution', 'python containers passed as arguments may be updated; ndarray and sparse arguments may not']
REACH_EXPECTED = ['perturb_sibling_fresh_process', 'perturb_poison', 'perturb_threads', 'perturb_history', 'perturb_sibling', 'perturb_rng', 'perturb_reuse_buffers', 'perturb_repeat',
                  'masked_sites_executed_under_poison']
EXCLUDED = {'msm.synthetic_data.synthetic_trajectory': 'sampler without seed argument',
            'msm.bootstrap.MSMs': 'thin wrapper over bootstrap (which is covered, seeded, on the simulated pool)',
            'cluster.KMedoids (estimator, cold start)': 'draws from OS entropy by design',
            'apps.*, geometry.* except libdist/rotamer, cards except disorder.transitions': 'file/trajectory driven front ends'}


# ------------------------------------------------------------------ argument generators
def g_points(t, nmax=25):
    n = t.irange(2, nmax)
    d = t.irange(1, 4)
    dt = t.choice(('float64', 'float64', 'float32', 'int32'))
    rs = np.random.RandomState(t.draw(2 ** 31 - 1))
    if dt.startswith('int'):
        X = rs.randint(-50, 50, size=(n, d)).astype(dt)
        X[:, 0] += (np.arange(n) * 101).astype(dt)
    else:
        X = (rs.rand(n, d) * 10).astype(dt)
    return np.ascontiguousarray(X)


def g_counts(t, connected=False, zero_rows=True):
    n = t.irange(2, 6)
    rs = np.random.RandomState(t.draw(2 ** 31 - 1))
    C = rs.randint(0, 5, size=(n, n)).astype(float)
    C[rs.rand(n, n) < 0.3] = 0
    if connected:
        C = C + C.T + np.eye(n) + (np.eye(n, k=1) + np.eye(n, k=-1))
    elif zero_rows and t.flag(1, 2):
        C[t.draw(n), :] = 0          # a state with no outgoing counts
    if t.flag(1, 4):
        C = C.astype(int)
    return C


def g_T(t, reversible=False):
    n = t.irange(2, 6)
    rs = np.random.RandomState(t.draw(2 ** 31 - 1))
    C = rs.rand(n, n) + 0.05
    if reversible:
        C = C + C.T
    return C / C.sum(axis=1, keepdims=True)


def as_container(t, M, kinds=('dense', 'dense', 'dense_f', 'csr', 'csc', 'coo', 'lil')):
    k = t.choice(kinds)
    if k == 'dense':
        return M
    if k == 'dense_f':
        return np.asfortranarray(M)          # column-major, as a transposed view or a LAPACK result would be
    return getattr(sp, k + '_matrix')(M)


def g_assigns(t):
    from enspara import ra
    n_states = t.irange(2, 5)
    rs = np.random.RandomState(t.draw(2 ** 31 - 1))
    ntr = t.irange(1, 4)
    lens = [t.irange(2, 12) for _ in range(ntr)]
    rows = [rs.randint(0, n_states, size=L) for L in lens]
    form = t.draw(3)
    if form == 0 or len(set(lens)) == 1:
        L = max(lens)
        A = np.full((ntr, L), -1, dtype=int)
        for i, r in enumerate(rows):
            A[i, :len(r)] = r
        return A, n_states
    if form == 1:
        return ra.RaggedArray(rows), n_states
    return ra.RaggedArray(np.concatenate(rows), lengths=lens), n_states


def g_features(t, dt=None):
    rs = np.random.RandomState(t.draw(2 ** 31 - 1))
    n = t.irange(1, 30)
    f = t.irange(1, 4)
    k = t.irange(2, 4)
    dt = dt or t.choice(('int8', 'int16', 'int32', 'int64', 'uint8', 'uint16'))
    return rs.randint(0, k, size=(n, f)).astype(dt), k


def g_prob(t, zeros=True):
    n = t.irange(2, 8)
    rs = np.random.RandomState(t.draw(2 ** 31 - 1))
    p = rs.rand(n)
    if zeros:
        p[rs.rand(n) < 0.4] = 0
    if p.sum() == 0:
        p[0] = 1
    return p / p.sum()


def src_snk(t, n):
    perm = t.perm(n)
    a = t.irange(1, max(1, n // 2))
    b = t.irange(1, max(1, n - a - 0) if n - a >= 1 else 1)
    src = sorted(perm[:a])
    snk = sorted(perm[a:a + b]) or [perm[-1]]
    if set(src) & set(snk) or not snk:
        snk = [x for x in range(n) if x not in src][:1]
    return src, snk


# ------------------------------------------------------------------ the catalogue
def catalogue():
    from enspara import ra, tpt
    from enspara.cluster import kcenters, kmedoids, hybrid, util
    from enspara.msm import builders, transition_matrices as tm, timescales, synthetic_data
    from enspara.info_theory import mutual_info as mi, entropy, libinfo
    from enspara.geometry import libdist, rotamer
    from enspara.cards import disorder
    E = []

    def add(name, gen):
        E.append((name, gen))

    # kernels -----------------------------------------------------------
    def k_dist(fn, ints):
        def gen(t):
            X = g_points(t)
            if ints:
                X = (np.abs(X) % 4).astype(t.choice(('uint8', 'int16', 'int64')))
            y = X[t.draw(len(X))].copy()
            if t.flag(1, 3):
                out = np.full(len(X), t.choice((np.nan, 7.5, -1e300)))
                return (lambda X, y, out: fn(X, y, out=out)), [X, y, out], {2}
            return fn, [X, y], set()
        return gen
    add('libdist.euclidean', k_dist(libdist.euclidean, False))
    add('libdist.manhattan', k_dist(libdist.manhattan, False))
    add('libdist.hamming', k_dist(libdist.hamming, True))

    def gen(t):
        A, k = g_features(t)
        B, k2 = g_features(t, dt=str(A.dtype))
        B = B[:len(A)] if len(B) >= len(A) else np.resize(B, (len(A), B.shape[1]))
        return libinfo.matrix_bincount2d, [A, B, k, k2], set()
    add('libinfo.matrix_bincount2d', gen)

    def gen(t):
        A, k = g_features(t)
        return libinfo.bincount2d, [np.ascontiguousarray(A[:, 0]), np.ascontiguousarray(A[:, -1]), k, k], set()
    add('libinfo.bincount2d', gen)

    # mutual information / entropy ------------------------------------------
    def gen(t):
        A, k = g_features(t)
        if t.flag():
            return mi.joint_counts, [A], set()
        B, k2 = g_features(t)
        B = np.resize(B, (len(A), B.shape[1]))
        return mi.joint_counts, [A, B, k, k2], set()
    add('mutual_info.joint_counts', gen)

    def g_jc(t):
        A, k = g_features(t)
        jc = mi.joint_counts(A, None, k).astype(np.uint32)
        if t.flag(1, 3) and jc.shape[0] >= 1:
            jc = jc.copy()
            jc[t.draw(jc.shape[0]), t.draw(jc.shape[1])] = 0       # a feature pair that was never observed
        if t.flag(1, 6):
            jc = np.zeros_like(jc)                                 # an empty table
        return jc, k

    def gen(t):
        jc, k = g_jc(t)
        return mi.mutual_information, [jc], set()
    add('mutual_info.mutual_information', gen)

    def gen(t):
        A, k = g_features(t)
        cut = t.irange(1, len(A)) if len(A) > 1 else 1
        Xs = [A[:cut], A[cut:]] if cut < len(A) else [A]
        return mi.mi_matrix, [Xs, Xs, k, k, t.flag()], set()
    add('mutual_info.mi_matrix', gen)

    def gen(t):
        A, k = g_features(t, dt='int64')
        rs = np.random.RandomState(t.draw(2 ** 31 - 1))
        w = rs.rand(len(A)) + 0.01
        if t.flag(1, 3):
            w[rs.rand(len(A)) < 0.3] = 0
            w[0] = 1
        w = w / w.sum()
        return mi.weighted_mi, [A, w, None if t.flag() else np.full(A.shape[1], k), t.flag()], set()
    add('mutual_info.weighted_mi', gen)

    def g_mimat(t):
        jc, k = g_jc(t)
        return mi.mutual_information(jc), k

    def gen(t):
        M_, k = g_mimat(t)
        n = M_.shape[0]
        nx = np.array([t.irange(2, 5) for _ in range(n)])
        return mi.channel_capacity_normalization, [M_, nx, nx if t.flag() else int(k)], set()
    add('mutual_info.channel_capacity_normalization', gen)
    for nm, f in (('mi_to_nmi', mi.mi_to_nmi), ('mi_to_apc', mi.mi_to_apc), ('mi_to_nmi_apc', mi.mi_to_nmi_apc)):
        def gen(t, f=f, nm=nm):
            M_, k = g_mimat(t)
            if nm != 'mi_to_apc' and t.flag():
                H = np.abs(np.diag(M_)) + 0.1 * (1 + t.draw(3))
                return f, [M_, H], set()
            return f, [M_], set()
        add('mutual_info.' + nm, gen)

    def gen(t):
        A, k = g_features(t)
        cut = t.irange(1, len(A)) if len(A) > 1 else 1
        Xs = [A[:cut], A[cut:]] if cut < len(A) else [A]
        return mi.mi_matrix_serial, [Xs, Xs, np.full(A.shape[1], k), np.full(A.shape[1], k), t.flag()], set()
    add('mutual_info.mi_matrix_serial', gen)

    def gen(t):
        M_, k = g_mimat(t)
        G = np.abs(np.asarray(M_, dtype=float))
        G = (G + G.T) / 2 / (1.0 + G.sum())          # symmetric, spectral radius below one: the deconvolution is well defined
        return mi.deconvolute_network, [G], set()
    add('mutual_info.deconvolute_network', gen)

    def gen(t):
        rs = np.random.RandomState(t.draw(2 ** 31 - 1))
        u = rs.rand(t.irange(1, 8)) * 10
        return entropy.energy_to_probability, [u] + ([t.choice((0.6, 2.479))] if t.flag() else []), set()
    add('entropy.energy_to_probability', gen)

    def gen(t):
        p = g_prob(t)
        if t.flag(1, 4):
            p = np.outer(p, g_prob(t))
        return entropy.shannon_entropy, [p, t.flag()], set()
    add('entropy.shannon_entropy', gen)

    def gen(t):
        p = g_prob(t, zeros=t.flag())
        q = g_prob(t, zeros=False)
        q = np.resize(q, p.shape)
        q = q / q.sum()
        if t.flag(1, 3):
            p, q = np.vstack([p, q]), np.vstack([q, p])
        return entropy.kl_divergence, [p, q, t.choice((2, np.e))], set()
    add('entropy.kl_divergence', gen)

    def gen(t):
        p = g_prob(t)
        q = np.resize(g_prob(t, zeros=False), p.shape)
        return entropy.js_divergence, [p, q / q.sum()], set()
    add('entropy.js_divergence', gen)

    def gen(t):
        P = g_T(t)
        Q = g_T(t)
        Q = np.resize(Q, P.shape)
        Q = Q / Q.sum(axis=1, keepdims=True)
        f = entropy.relative_entropy_msm if t.flag() else entropy.relative_entropy_per_state
        return (lambda P, Q: f(P, Q=Q)), [P, Q], set()
    add('entropy.relative_entropy_*', gen)

    def gen(t):
        A, ns = g_assigns(t)
        return (lambda A, ns: entropy.Q_from_assignments(A, n_states=ns)), [A, ns], set()
    add('entropy.Q_from_assignments', gen)

    # msm ---------------------------------------------------------------------
    def gen(t):
        A, ns = g_assigns(t)
        lag = t.irange(1, 3)
        return (lambda A, lag, ns, sw: tm.assigns_to_counts(A, lag, max_n_states=ns, sliding_window=sw).toarray()), \
            [A, lag, ns if t.flag() else None, t.flag()], set()
    add('transition_matrices.assigns_to_counts', gen)

    def gen(t):
        T = as_container(t, g_T(t), ('dense', 'dense', 'dense_f', 'csr'))
        n = T.shape[0]
        return tm.eigenspectrum, [T, None if t.flag() else t.irange(2, n) if n >= 2 else None, t.flag()], set()
    add('transition_matrices.eigenspectrum', gen)

    def gen(t):
        return tm.eq_probs, [as_container(t, g_T(t), ('dense', 'csr'))], set()
    add('transition_matrices.eq_probs', gen)

    def gen(t):
        C = g_counts(t)
        C[C < 2] = 0
        return (lambda C, th, rn: tm.trim_disconnected(C, threshold=th, renumber_states=rn)), \
            [as_container(t, C, ('dense', 'dense', 'csr', 'lil')), t.irange(1, 3), t.flag()], set()
    add('transition_matrices.trim_disconnected', gen)
    for nm, f, conn in (('normalize', builders.normalize, False), ('transpose', builders.transpose, False), ('mle', builders.mle, True)):
        def gen(t, f=f, conn=conn):
            C = g_counts(t, connected=conn)
            if t.flag(1, 2):
                C = C.astype(np.float32)
            Cc = as_container(t, C)
            pc = None if t.flag(2, 3) else t.choice((1, 0.5, 1e-3))
            return (lambda C, pc, ce: f(C, prior_counts=pc, calculate_eq_probs=ce)), [Cc, pc, t.flag(2, 3)], set()
        add('builders.' + nm, gen)
    for nm, f in (('_prinz_mle', builders._prinz_mle), ('_prinz_mle_py', builders._prinz_mle_py)):
        def gen(t, f=f):
            return f, [g_counts(t, connected=True).astype(float)], set()
        add('builders.' + nm, gen)

    def gen(t):
        A, ns = g_assigns(t)
        meth = t.choice((builders.normalize, builders.transpose))
        return (lambda A, lags, meth, nt, sw: timescales.implied_timescales(A, lags, meth, n_times=nt, sliding_window=sw)), \
            [A, [1, 2][:t.irange(1, 2)], meth, t.irange(1, 2), t.flag()], set()
    add('timescales.implied_timescales', gen)

    def gen(t):
        from enspara.msm import MSM
        A, ns = g_assigns(t)

        A0 = g_assigns(t)[0] if t.flag(1, 2) else None

        def one(A, lag, meth, trim, mx, first):
            m = MSM(lag_time=lag, method=meth, trim=trim, max_n_states=mx)
            if first is not None:
                # the object was fitted before, on other data and with the other trimming choice: the later fit decides
                m.trim = not trim
                m.fit(first)
                m.trim = trim
            m.fit(A)
            mp = sorted((int(a), int(b)) for a, b in m.mapping_.to_original.items())
            return [np.asarray(m.tcounts_.todense() if sp.issparse(m.tcounts_) else m.tcounts_),
                    np.asarray(m.tprobs_.todense() if sp.issparse(m.tprobs_) else m.tprobs_), np.asarray(m.eq_probs_), np.array(mp)]

        def fit(A, lag, meth, trim, mx, first=A0):
            fresh = one(A, lag, meth, trim, mx, None)
            if first is not None:
                again = one(A, lag, meth, trim, mx, first)
                for nm_, x, y in zip(('tcounts_', 'tprobs_', 'eq_probs_', 'mapping_'), fresh, again):
                    if x.shape != y.shape or not np.array_equal(x, y, equal_nan=True):
                        raise SimViolation('result_depends_on_context', 'MSM.fit on an object that was fitted before (other data, other trim '
                                           'setting) gives another %s than on a new object: %s vs %s' % (nm_, y.tolist(), x.tolist()))
            return fresh
        return fit, [A, t.irange(1, 2), t.choice(('normalize', 'transpose', builders.normalize)), t.flag(1, 3), None if t.flag() else ns], set()
    add('msm.MSM.fit', gen)

    def gen(t):
        rs = np.random.RandomState(t.draw(2 ** 31 - 1))
        data = rs.randint(0, 50, size=(t.irange(2, 12), t.irange(1, 3))).astype(np.int32)
        return seeded_bootstrap, [data, t.irange(1, 6), t.draw(1000)], set()
    add('msm.bootstrap.bootstrap (seeded, simulated pool)', gen)

    def gen(t):
        T = as_container(t, g_T(t), ('dense', 'csr'))
        n = T.shape[0]
        p0 = g_prob(t, zeros=False)
        p0 = np.resize(p0, n)
        obs = None if t.flag() else np.arange(n, dtype=float)
        return synthetic_data.synthetic_ensemble, [T, p0 / p0.sum(), t.irange(1, 6), obs], set()
    add('synthetic_data.synthetic_ensemble', gen)

    # tpt ---------------------------------------------------------------------------
    def gen(t):
        T = g_T(t)
        src, snk = src_snk(t, T.shape[0])
        return tpt.committors, [as_container(t, T, ('dense', 'dense', 'csr', 'lil')), src, snk], set()
    add('tpt.committors', gen)

    def gen(t):
        T = g_T(t)
        n = T.shape[0]
        sinks = None if t.flag() else src_snk(t, n)[1]
        pops = None if t.flag() else tm.eq_probs(T)
        return (lambda T, s, p, lag: tpt.mfpts(T, sinks=s, populations=p, lagtime=lag)), \
            [as_container(t, T, ('dense', 'dense', 'csr')), sinks, pops, t.choice((1., 2.5))], set()
    add('tpt.mfpts', gen)
    for nm, f in (('reactive_fluxes', tpt.reactive_fluxes), ('net_fluxes', tpt.net_fluxes), ('reactive_populations', tpt.reactive_populations)):
        def gen(t, f=f):
            T = g_T(t, reversible=True)
            src, snk = src_snk(t, T.shape[0])
            pops = None if t.flag() else tm.eq_probs(T)
            return (lambda T, a, b, p: f(T, a, b, populations=p)), [as_container(t, T, ('dense', 'dense', 'dense_f', 'csr', 'csc', 'coo', 'lil')), src, snk, pops], set()
        add('tpt.' + nm, gen)

    def g_flux(t):
        T = g_T(t, reversible=True)
        src, snk = src_snk(t, T.shape[0])
        return tpt.net_fluxes(T, src, snk), src, snk

    def gen(t):
        F, src, snk = g_flux(t)
        return tpt.top_path, [src, snk, F], set()
    add('tpt.top_path', gen)

    def gen(t):
        F, src, snk = g_flux(t)
        return (lambda a, b, F, rp, npth, fc: tpt.paths(a, b, F, remove_path=rp, num_paths=npth, flux_cutoff=fc)), \
            [src, snk, F, t.choice(('subtract', 'bottleneck', _remove_bottleneck_in_place)), t.choice((np.inf, 1, 3)), t.choice((1 - 1e-10, 0.5))], set()
    add('tpt.paths', gen)

    # clustering helpers and clusterers ----------------------------------------------------
    def gen(t):
        X = g_points(t)
        K = t.irange(1, len(X) + 3)
        Cn = g_points(t, nmax=max(2, K))
        Cn = np.resize(Cn.astype(X.dtype), (K, X.shape[1]))
        m = t.choice(('euclidean', 'manhattan'))
        return (lambda X, Cn, m: util.assign_to_nearest_center(X, Cn, util._get_distance_method(m))), [X, Cn, m], set()
    add('cluster.util.assign_to_nearest_center', gen)

    def g_labels(t):
        X = g_points(t)
        K = t.irange(1, min(5, len(X)))
        a, d = util.assign_to_nearest_center(X.astype(float), X[:K].astype(float), libdist.euclidean)
        return X, a, d

    def gen(t):
        X, a, d = g_labels(t)
        return util.find_cluster_centers, [a, d], set()
    add('cluster.util.find_cluster_centers', gen)

    def gen(t):
        X, a, d = g_labels(t)
        lens = []
        left = len(a)
        while left > 0:
            L = min(left, t.irange(1, 6))
            lens.append(L)
            left -= L
        if t.flag(1, 3) and len(a) % 2 == 0:
            lens = [len(a) // 2] * 2
        ci = util.find_cluster_centers(a, d)
        res = util.ClusterResult(center_indices=ci, distances=d, assignments=a, centers=[X[i] for i in ci])
        return (lambda res, lens: res.partition(lens)), [res, lens], set()
    add('cluster.util.ClusterResult.partition', gen)

    def gen(t):
        X, a, d = g_labels(t)
        lens = [len(a) - len(a) // 2, len(a) // 2] if len(a) >= 2 else [len(a)]
        idx = [t.draw(len(a)) for _ in range(t.irange(1, 4))]
        f = t.choice(('indices', 'list'))
        if f == 'indices':
            return ra.partition_indices, [np.array(idx) if t.flag() else idx, lens], set()
        return ra.partition_list, [d, lens], set()
    add('ra.partition_indices/partition_list', gen)
    for nm, which in (('kcenters', 0), ('kmedoids', 1), ('hybrid', 2)):
        def gen(t, which=which):
            X = g_points(t)
            K = t.irange(1, min(5, len(X)))
            m = t.choice(('euclidean', 'manhattan'))
            seed = t.draw(1000)
            if which == 0:
                return (lambda X, m, K, tri: kcenters.kcenters(X, m, n_clusters=K, use_triangle_inequality=tri)), [X, m, K, t.flag()], set()
            if which == 1:
                return (lambda X, m, K, it, sd: kmedoids.kmedoids(X, m, n_clusters=K, n_iters=it, random_state=sd)), \
                    [X, m, K, t.irange(1, 3), seed], set()
            return (lambda X, m, K, it, sd: hybrid.hybrid(X, m, n_clusters=K, n_iters=it, random_state=sd)), [X, m, K, t.irange(0, 3), seed], set()
        add('cluster.' + nm, gen)

    def gen(t):
        X, a, d = g_labels(t)
        ci = util.find_cluster_centers(a, d)
        return (lambda X, a, d, ci, sd: kmedoids.kmedoids(X.astype(float), 'euclidean', n_iters=2, assignments=a, distances=d,
                                                         cluster_center_inds=ci, random_state=sd)), [X, a, d, ci, t.draw(1000)], set()
    add('cluster.kmedoids(warm start)', gen)

    # ragged arrays ---------------------------------------------------------------------------
    def gen(t):
        rs = np.random.RandomState(t.draw(2 ** 31 - 1))
        lens = [t.irange(1, 5) for _ in range(t.irange(1, 5))]
        flat = rs.rand(sum(lens)).round(2)
        which = t.draw(8)
        thr = float(np.sort(flat)[t.draw(len(flat))])
        if which >= 6:
            # fancy indexing with index arrays (negative entries included): the index arrays are arguments too
            k = t.irange(1, 3)
            rows_i = np.array([t.draw(len(lens)) for _ in range(k)])
            cols_i = np.array([t.draw(lens[r]) for r in rows_i])
            neg_r = np.array([t.flag() for _ in range(k)])
            neg_c = np.array([t.flag() for _ in range(k)])
            ri = np.where(neg_r, rows_i - len(lens), rows_i)
            ci = np.where(neg_c, cols_i - np.array(lens)[rows_i], cols_i)
            if which == 6:
                return (lambda flat, lens, ri, ci: ra.RaggedArray(flat, lengths=lens)[(ri, ci)]), [flat, lens, ri, ci], set()

            def fancy_set(flat, lens, ri, ci):
                a = ra.RaggedArray(flat, lengths=lens)
                a[(ri, ci)] = -2.0
                return a
            return fancy_set, [flat, lens, ri, ci], set()
        if which == 0:
            return (lambda flat, lens: ra.RaggedArray(flat, lengths=lens) * 2 + 1), [flat, lens], set()
        if which == 1:
            return (lambda flat, lens, thr: ra.where(ra.RaggedArray(flat, lengths=lens) > thr)), [flat, lens, thr], set()
        if which == 2:
            return (lambda flat, lens: ra.RaggedArray(flat, lengths=lens)[:, 0:1]), [flat, lens], set()
        if which == 3:
            return (lambda flat, lens, thr: (ra.RaggedArray(flat, lengths=lens) >= thr)), [flat, lens, thr], set()
        if which == 4:
            return (lambda flat, lens: ra.zeros_like(ra.RaggedArray(flat, lengths=lens))), [flat, lens], set()

        def setter(flat, lens, thr):
            a = ra.RaggedArray(flat, lengths=lens)
            a[a > thr] = -1.0
            a[0] = a[0] * 2
            return a
        return setter, [flat, lens, thr], set()
    add('ra.RaggedArray operations', gen)

    # geometry / cards ---------------------------------------------------------------------------
    def gen(t):
        rs = np.random.RandomState(t.draw(2 ** 31 - 1))
        ang = rs.rand(t.irange(1, 40)) * 360
        hb = t.choice(([0, 120, 240, 360], [0, 180, 360], [0, 60, 180, 300, 360]))
        return rotamer._rotamers, [ang, hb, t.choice((0, 15, 25))], set()
    add('rotamer._rotamers', gen)

    def gen(t):
        rs = np.random.RandomState(t.draw(2 ** 31 - 1))
        if t.flag():
            return disorder.transitions, [rs.randint(0, 3, size=t.irange(2, 30))], set()
        A = rs.randint(0, 3, size=(t.irange(1, 4), t.irange(2, 15)))
        A[:, 1] = A[:, 0] + 1          # every row has at least one transition
        return disorder.transitions, [A], set()
    add('disorder.transitions', gen)
    return E


# ------------------------------------------------------------------ canonical form of results
def canon(obj, path='r', out=None, depth=0):
    if out is None:
        out = []
    if depth > 6:
        out.append((path, 'deep'))
        return out
    if obj is None or isinstance(obj, (bool, int, str)):
        out.append((path, obj))
    elif isinstance(obj, (float, np.floating, np.integer, np.bool_, complex)):
        out.append((path, np.asarray(obj)))
    elif isinstance(obj, np.ndarray):
        if obj.dtype == object:
            for i, x in enumerate(obj.ravel()):
                canon(x, '%s[%d]' % (path, i), out, depth + 1)
        else:
            out.append((path, np.array(obj)))
    elif sp.issparse(obj):
        c = obj.tocoo()
        c.sum_duplicates()
        order = np.lexsort((c.col, c.row))
        out.append((path + '.fmt', obj.getformat()))
        out.append((path + '.shape', tuple(obj.shape)))
        out.append((path + '.row', np.asarray(c.row)[order]))
        out.append((path + '.col', np.asarray(c.col)[order]))
        out.append((path + '.data', np.asarray(c.data)[order]))
    elif hasattr(obj, '_data') and hasattr(obj, 'lengths'):
        out.append((path + '.lengths', np.asarray(obj.lengths)))
        canon(np.asarray(obj._data), path + '._data', out, depth + 1)
    elif isinstance(obj, dict):
        for k in sorted(obj, key=str):
            canon(obj[k], '%s{%s}' % (path, k), out, depth + 1)
    elif isinstance(obj, (list, tuple)):
        out.append((path + '.len', len(obj)))
        for i, x in enumerate(obj):
            canon(x, '%s[%d]' % (path, i), out, depth + 1)
    elif hasattr(obj, 'to_original') and hasattr(obj, 'to_mapped'):
        canon(dict(obj.to_original), path + '.to_original', out, depth + 1)
    elif hasattr(obj, 'xyz'):
        out.append((path + '.xyz', np.array(obj.xyz)))
    else:
        out.append((path, repr(type(obj))))
    return out


def same_leaf(a, b):
    if isinstance(a, np.ndarray) or isinstance(b, np.ndarray):
        a, b = np.asarray(a), np.asarray(b)
        if a.shape != b.shape or a.dtype != b.dtype:
            return False
        if a.dtype.kind in 'fc':
            return bool(np.array_equal(a, b, equal_nan=True))
        return bool(np.array_equal(a, b))
    return a == b


def diff(c0, c1):
    if len(c0) != len(c1):
        return 'result structure differs (%d vs %d leaves)' % (len(c0), len(c1))
    for (p0, v0), (p1, v1) in zip(c0, c1):
        if p0 != p1:
            return 'result structure differs at %s vs %s' % (p0, p1)
        if not same_leaf(v0, v1):
            a, b = np.asarray(v0), np.asarray(v1)
            if a.shape == b.shape and a.size:
                bad = np.argwhere(~((a == b) | ((a != a) & (b != b))))
                i = tuple(int(x) for x in bad[0]) if len(bad) else ()
                return '%s%s: %r vs %r (%s / %s)' % (p0, list(i), a[i] if a.ndim else a, b[i] if b.ndim else b, a.dtype, b.dtype)
            return '%s: shape/dtype %s %s vs %s %s' % (p0, a.shape, a.dtype, b.shape, b.dtype)
    return None


def clone(x):
    if isinstance(x, np.ndarray):
        return np.array(x, copy=True, order='K')
    if sp.issparse(x):
        return x.copy()
    if hasattr(x, '_data') and hasattr(x, 'lengths'):
        from enspara import ra
        return ra.RaggedArray(np.array(x._data), lengths=np.array(x.lengths))
    if isinstance(x, list):
        return [clone(y) for y in x]
    if isinstance(x, tuple) and hasattr(x, '_fields'):
        return type(x)(*[clone(y) for y in x])
    if isinstance(x, tuple):
        return tuple(clone(y) for y in x)
    return x


def arg_leaves(args):
    return canon(list(args), 'arg')


# ------------------------------------------------------------------ execution under perturbation
def run_once(fn, args, poison, pseed, T, dec, scribble=(), iso=True):
    native.poison(poison, pseed)
    native.install_allocator()
    native.gomp(T, T > 1 and iso, dec if T > 1 else None)
    native.gomp_stats(reset=True)
    native.reset_redzone()
    try:
        live = [clone(a) for a in args]
        for k in scribble:
            # an output buffer is write-only by contract: what it held before must not matter
            rs = np.random.RandomState(pseed)
            live[k][...] = rs.choice([np.nan, 1e300, -3.5, 0.0, 42.0], size=live[k].shape)
        before = arg_leaves(live)
        leaked = None
        try:
            with np.errstate(all='ignore'):
                err0 = np.geterr()
                try:
                    res = ('ok', canon(fn(*live)))
                finally:
                    if np.geterr() != err0:
                        leaked = (err0, np.geterr())
        except SimViolation:
            raise
        except Exception as e:
            res = ('exc', type(e).__name__, str(e)[:120])
        if leaked is not None:
            # a routine that changes NumPy's process-wide floating-point error handling and does not put it back makes every
            # later call of any other routine depend on whether this one ran first
            raise SimViolation('process_state_changed', '%s left numpy.seterr at %s (was %s)' % (getattr(fn, '__name__', 'routine'), leaked[1], leaked[0]))
        after = arg_leaves(live)
        bad = native.redzone_bad()
        sync = native.gomp_stats()['sync_seen']
    finally:
        native.gomp(1, False, None)
        native.uninstall_allocator()
        native.poison(0, 1)
    return res, before, after, bad, live


_CAT = None
_SITES = None
_CUR = {'ctx': None}


def _remove_bottleneck_in_place(net_flux, path):
    """a user-supplied `remove_path` scheme for tpt.paths: edits the matrix it is handed and returns it (the docstring asks
    only for 'a function that takes the net flux and the path and returns the new net flux matrix')"""
    path = np.asarray(path)
    edges = net_flux[path[:-1], path[1:]]
    k = int(np.argmin(edges))
    net_flux[path[k], path[k + 1]] = 0.0
    return net_flux


def _boot_stat(sample, scale=1):
    """the statistic handed to msm.bootstrap (module level: it crosses to the workers by pickle)"""
    return (np.asarray(sample, dtype=np.int64) * scale).sum(axis=0)


def seeded_bootstrap(data, n_trials, seed):
    """msm.bootstrap.bootstrap with numpy's global generator seeded first, on a simulated pool whose worker count, dispatch
    and completion order are tape decisions of the run (context, not arguments)"""
    from enspara.msm import bootstrap as B
    from ..engines import simpool
    ctx = _CUR['ctx']
    np.random.seed(seed)
    sim = simpool.Sim(ctx, [B])
    old = B.mp
    B.mp = simpool.SimMP(sim)
    try:
        return B.bootstrap(_boot_stat, data, n_trials, n_procs=ctx.tape.irange(1, 4, 'pool'), scale=2)
    finally:
        B.mp = old
        B.__dict__.pop('bootstrap_data', None)


def setup():
    global _CAT, _SITES
    native.lib()
    _CAT = catalogue()
    _SITES = scan_sites()
    install_site_monitor()


def scenario(ctx):
    t = ctx.tape
    _CUR['ctx'] = ctx
    cat = _CAT
    k = t.draw(len(cat))
    name, gen = cat[k]
    fn, args, inplace_ok = gen(t)
    ctx.scenario.update(routine=name, args=[summ(a) for a in args])
    ctx.count('routine:' + name)
    # "the same routine was used with other arguments first", in a process that has not yet seen this call: a forked
    # child runs one or two sibling calls and then the real one; the parent then runs the real call first (baseline)
    pre = None
    if t.flag(1, 3):
        sibs = [gen(t) for _h in range(t.irange(1, 2))]

        def child():
            for f2, a2, _ in sibs:
                run_once(f2, a2, 0, 1, 1, None)
            return run_once(fn, args, 0, 1, 1, None)[0]
        pre = forked(child)
        ctx.hit('perturb_sibling_fresh_process')
    base, b_before, b_after, bad, _ = run_once(fn, args, 0, 1, 1, None)
    if pre is not None:
        if pre[0] == 'crashed':
            raise SimViolation('interpreter_crash', '%s killed a forked child (%s)' % (name, pre[1]))
        compare(ctx, name, base, pre, 'sibling call first in a fresh process state', 0, 1)
    check_args(name, b_before, b_after, inplace_ok, 'baseline')
    require(bad == 0, 'out_of_bounds_write', lambda: '%s damaged %d red zones' % (name, bad))
    kinds = ['poison', 'poison', 'threads', 'history', 'sibling', 'rng', 'reuse', 'repeat']
    perts = []
    for _ in range(3):
        kind = t.choice(kinds)
        poison = 0
        T, dec = 1, None
        desc = kind
        if kind == 'poison' or t.flag(1, 2):
            poison = 1 + t.draw(6)
        if kind == 'threads' or t.flag(1, 3):
            T = 2 + t.draw(15, 'gomp')
            dec = t.block(6 * T, 64, 'gomp')
        pseed = 1 + t.draw(1000)
        if kind == 'history':
            h = t.irange(1, 4)
            names = []
            for _h in range(h):
                n2, g2 = cat[t.draw(len(cat))]
                f2, a2, _ = g2(t)
                run_once(f2, a2, poison, pseed, 1, None)
                names.append(n2)
            desc = 'history:' + ','.join(names)
        if kind == 'sibling':
            # the same routine was just used with other arguments (other sizes, other scalar parameters)
            for _h in range(t.irange(1, 2)):
                f2, a2, _ = gen(t)
                run_once(f2, a2, poison, pseed, 1, None)
            desc = 'sibling call first'
        if kind == 'rng':
            np.random.seed(t.draw(2 ** 31 - 1))
            np.random.rand(1 + t.draw(30))
        if kind == 'reuse':
            # the caller reuses its argument buffers: first a call with other contents in the very same arrays ...
            res_r = reuse_call(fn, args, poison, pseed)
            ctx.hit('perturb_reuse_buffers')
            compare(ctx, name, base, res_r, desc + ' (same buffers used with other contents first)', poison, T)
            perts.append((desc, poison, T))
            if poison or T > 1:
                ctx.nontrivial = True
            continue
        _SITE_STATE['poisoned'] = poison != 0
        try:
            res, before, after, bad, _ = run_once(fn, args, poison, pseed, T, dec, scribble=inplace_ok)
            if inplace_ok:
                ctx.hit('output_buffer_scribbled')
        finally:
            _SITE_STATE['poisoned'] = False
        check_args(name, before, after, inplace_ok, desc)
        require(bad == 0, 'out_of_bounds_write', lambda: '%s damaged %d red zones under %s' % (name, bad, desc))
        compare(ctx, name, base, res, desc, poison, T)
        ctx.hit({'poison': 'perturb_poison', 'threads': 'perturb_threads', 'history': 'perturb_history', 'sibling': 'perturb_sibling', 'rng': 'perturb_rng',
                 'repeat': 'perturb_repeat'}[kind])
        if poison:
            ctx.fault('poison_' + native.POISON_MODES[poison])
        if T > 1:
            ctx.fault('team_of_virtual_threads')
        if poison or T > 1:
            ctx.nontrivial = True
        perts.append((desc, poison, T))
        ctx.steps += 1
    ctx.scenario['perturbations'] = perts
    ctx.fp(name, str([summ(a) for a in args]), str(perts), str(base)[:200])
    if _SITE_HITS:
        ctx.hit('masked_sites_executed_under_poison')
        for s_ in list(_SITE_HITS):
            ctx.hit('site:' + s_)
        _SITE_HITS.clear()


def forked(thunk):
    """run thunk() in a forked child and return its (picklable) result, or ('crashed', why)"""
    import pickle
    import signal
    r, w = os.pipe()
    pid = os.fork()
    if pid == 0:
        code = 0
        try:
            os.close(r)
            signal.alarm(0)
            signal.setitimer(signal.ITIMER_VIRTUAL, 0)
            data = pickle.dumps(thunk())
            off = 0
            while off < len(data):
                off += os.write(w, data[off:off + 65536])
        except BaseException:      # noqa
            code = 3
        finally:
            os._exit(code)
    os.close(w)
    chunks = []
    while True:
        b = os.read(r, 1 << 20)
        if not b:
            break
        chunks.append(b)
    os.close(r)
    _, status = os.waitpid(pid, 0)
    if not chunks or status != 0:
        return ('crashed', 'status %s' % status)
    return pickle.loads(b''.join(chunks))


def reuse_call(fn, args, poison, pseed):
    native.poison(poison, pseed)
    native.install_allocator()
    try:
        live = [clone(a) for a in args]
        saved = [clone(a) for a in live]
        for a in live:
            scramble(a)
        try:
            with np.errstate(all='ignore'):
                fn(*live)
        except SimViolation:
            raise
        except Exception:
            pass
        for a, s_ in zip(live, saved):
            restore(a, s_)
        try:
            with np.errstate(all='ignore'):
                return ('ok', canon(fn(*live)))
        except SimViolation:
            raise
        except Exception as e:
            return ('exc', type(e).__name__, str(e)[:120])
    finally:
        native.uninstall_allocator()
        native.poison(0, 1)


def scramble(a):
    """other contents of the same kind in the very same buffers (reverse every axis)"""
    if isinstance(a, np.ndarray) and a.size and a.dtype != object and a.flags.writeable:
        a[...] = np.flip(a).copy()
    elif sp.issparse(a) and hasattr(a, 'data') and isinstance(a.data, np.ndarray) and a.data.dtype != object:
        a.data[...] = a.data[::-1].copy()
    elif hasattr(a, '_data') and hasattr(a, 'lengths'):
        a._data[...] = a._data[::-1].copy()
    elif isinstance(a, list):
        for x in a:
            if isinstance(x, np.ndarray):
                scramble(x)


def restore(a, s_):
    if isinstance(a, np.ndarray) and a.size and a.dtype != object and a.flags.writeable:
        a[...] = s_
    elif sp.issparse(a) and hasattr(a, 'data') and isinstance(a.data, np.ndarray) and a.data.dtype != object:
        a.data[...] = s_.data
    elif hasattr(a, '_data') and hasattr(a, 'lengths'):
        a._data[...] = s_._data
    elif isinstance(a, list):
        for x, y in zip(a, s_):
            if isinstance(x, np.ndarray):
                restore(x, y)


def compare(ctx, name, base, res, desc, poison, T):
    if base[0] != res[0]:
        raise SimViolation('result_depends_on_context', '%s: baseline %s, under %s (poison=%s, T=%d) %s' %
                           (name, base[:2] if base[0] == 'exc' else 'returned', desc, native.POISON_MODES.get(poison), T,
                            res[:3] if res[0] == 'exc' else 'returned'))
    if base[0] == 'exc':
        require(base[1] == res[1], 'result_depends_on_context', lambda: '%s raises %s in the baseline and %s under %s' %
                (name, base[1], res[1], desc))
        ctx.count('both_raise')
        return
    d = diff(base[1], res[1])
    if d is not None:
        cls = 'uninitialised_read' if (poison and not desc.startswith(('history', 'reuse', 'rng', 'sibling'))) else 'result_depends_on_context'
        if T > 1 and not poison and desc.startswith('threads'):
            cls = 'thread_count_dependent'
        raise SimViolation(cls, '%s under %s (poison=%s, T=%d): %s' % (name, desc, native.POISON_MODES.get(poison), T, d))


def check_args(name, before, after, inplace_ok, desc):
    for i, ((p0, v0), (p1, v1)) in enumerate(zip(before, after)):
        if any(p0.startswith('arg[%d]' % k) for k in inplace_ok):
            continue
        if p0 != p1 or not same_leaf(v0, v1):
            raise SimViolation('argument_modified', '%s (%s) modified its argument %s' % (name, desc, p0))
    if len(before) != len(after):
        raise SimViolation('argument_modified', '%s (%s) changed the structure of an argument' % (name, desc))


def summ(a):
    if isinstance(a, np.ndarray):
        return 'ndarray%s %s' % (a.shape, a.dtype)
    if sp.issparse(a):
        return '%s%s' % (a.getformat(), a.shape)
    if hasattr(a, 'lengths') and hasattr(a, '_data'):
        return 'RaggedArray(lengths=%s)' % list(a.lengths)
    if callable(a):
        return 'callable:' + getattr(a, '__name__', type(a).__name__)
    r = repr(a)
    return r if len(r) < 60 else r[:57] + '...'


# ------------------------------------------------------------------ static part: masked ufuncs / np.empty sites
_SITE_STATE = {'poisoned': False}
_SITE_HITS = set()


def scan_sites():
    """every call np.<ufunc>(..., where=...) without out=, and every np.empty / np.empty_like, in the staged sources"""
    from ..core import env
    root = os.path.join(env.STAGE, 'enspara')
    sites = {}
    for d, _, files in os.walk(root):
        for f in files:
            if not f.endswith('.py'):
                continue
            full = os.path.join(d, f)
            try:
                tree = ast.parse(open(full).read())
            except SyntaxError:
                continue
            for node in ast.walk(tree):
                if not isinstance(node, ast.Call) or not isinstance(node.func, ast.Attribute):
                    continue
                base = node.func.value
                if not (isinstance(base, ast.Name) and base.id in ('np', 'numpy')):
                    continue
                kws = {k.arg for k in node.keywords}
                kind = None
                if 'where' in kws and 'out' not in kws:
                    kind = 'masked_ufunc_without_out:' + node.func.attr
                elif 'where' in kws:
                    kind = 'masked_ufunc_with_out:' + node.func.attr
                elif node.func.attr in ('empty', 'empty_like'):
                    kind = 'np.' + node.func.attr
                if kind:
                    rel = os.path.relpath(full, root)
                    sites['%s:%d' % (rel, node.lineno)] = dict(kind=kind, file=full, lines=list(range(node.lineno, (node.end_lineno or node.lineno) + 1)))
    return sites


def install_site_monitor():
    """sys.monitoring LINE events on the code objects that contain a site; a hit counts only while a poisoned execution runs"""
    mon = getattr(sys, 'monitoring', None)
    if mon is None or not _SITES:
        return
    tool = 3
    try:
        mon.use_tool_id(tool, 'c19-sites')
    except ValueError:
        return
    by_file = {}
    for key, s_ in _SITES.items():
        for ln in s_['lines']:
            by_file.setdefault(s_['file'], {})[ln] = key

    def on_line(code, line):
        key = by_file.get(code.co_filename, {}).get(line)
        if key is not None and _SITE_STATE['poisoned']:
            _SITE_HITS.add(key)
        return None

    mon.register_callback(tool, mon.events.LINE, on_line)
    seen = set()

    def visit(code):
        if id(code) in seen:
            return
        seen.add(id(code))
        lines = by_file.get(code.co_filename)
        if lines and any(l in lines for _, _, l in code.co_lines() if l is not None):
            mon.set_local_events(tool, code, mon.events.LINE)
        for c in code.co_consts:
            if hasattr(c, 'co_code'):
                visit(c)
    for m in list(sys.modules.values()):
        f = getattr(m, '__file__', None)
        if not f or f not in by_file:
            continue
        for v in list(vars(m).values()):
            code = getattr(v, '__code__', None)
            if code is not None:
                visit(code)
            if isinstance(v, type):
                for w in vars(v).values():
                    c2 = getattr(w, '__code__', None) or getattr(getattr(w, 'fget', None), '__code__', None)
                    if c2 is not None:
                        visit(c2)


def evidence_extra(results):
    reach = {}
    for r in results:
        for k, v in (r.reach or {}).items():
            if k.startswith('site:'):
                reach[k[5:]] = reach.get(k[5:], 0) + v
    sites = _SITES or {}
    return {
        'routines': sorted(n for n, _ in (_CAT or [])),
        'excluded_routines': EXCLUDED,
        'static_sites': {k: v['kind'] for k, v in sorted(sites.items())},
        'sites_executed_under_poison': sorted(reach),
        'uncovered_sites': sorted(k for k in sites if k not in reach and not k.startswith(('apps/', 'geometry/', 'cards/', 'util/', 'citation/'))),
        'worker_process_counts': 'varied by the C15 and C10 checks (simpool); not repeated here',
    }
