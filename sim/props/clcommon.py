"""Shared scenario pieces for the clustering / MPI properties."""
import numpy as np

from ..engines import simmpi, native
from ..engines.simmpi import SimViolation
from ..models import cluster as M


def E():
    """late import of the staged enspara modules"""
    import enspara  # noqa
    from enspara import mpi, ra
    from enspara.cluster import kcenters, kmedoids, hybrid, util
    return dict(mpi=mpi, ra=ra, kcenters=kcenters, kmedoids=kmedoids, hybrid=hybrid, util=util)


class Problem:
    """A drawn clustering problem: data, trajectories, metric, stopping rule."""

    def __init__(self, ctx, max_ranks=8, max_traj=24, max_frames=60, max_len=9, want_ranks=True, dtype=None,
                 metric=None, allow_rmsd=False):
        t = ctx.tape
        self.atoms = None
        self.N = t.irange(1, max_ranks) if want_ranks else 1
        n_traj = self.N + t.draw(min(2 * self.N + 1, max_traj - self.N + 1))
        n_traj = max(n_traj, 1)
        lengths = M.gen_lengths(t, n_traj, max_len)
        while sum(lengths) > max_frames and max(lengths) > 1:
            i = int(np.argmax(lengths))
            lengths[i] -= 1
        self.lengths = lengths
        self.n = int(sum(lengths))
        self.dim = t.irange(1, 4)
        self.dtype = dtype or t.choice(M.DTYPES)
        self.metric_name = metric or t.choice(('euclidean', 'euclidean', 'manhattan', 'callable', 'euclidean', 'manhattan', 'callable',
                                               'callable_reuse', 'callable_sq'))
        self.jitter = not t.flag(1, 8)
        self.scale = 1.0
        if allow_rmsd and dtype is None and metric is None and self.n >= 3 and t.flag(1, 8):
            # the library's main use: molecular trajectories compared by RMSD after optimal superposition
            self.metric_name = 'rmsd'
            self.rmsd_as_callable = t.flag(1, 3)
            self.precentred = t.flag(1, 4)          # the caller has already run center_coordinates() on what it hands over
            if self.precentred:
                ctx.hit('rmsd_precentred_input')
            self.dtype = 'float32'
            self.atoms = self.dim = t.irange(6, 10)     # 4-atom frames are degenerate enough for a self-RMSD above 1e-3, which k-medoids' own consistency assert rejects
            if self.n > 40:
                # the reference is quadratic in the number of frames
                while sum(lengths) > 40 and max(lengths) > 1:
                    lengths[int(np.argmax(lengths))] -= 1
                self.n = int(sum(lengths))
            rs = np.random.RandomState(t.draw(2 ** 31 - 1))
            self.X = rs.rand(self.n, self.atoms, 3).astype(np.float32)          # nanometres
            self.model_metric = M.METRICS['rmsd']
            self.l2g = M.local_to_global(lengths, self.N)
            ctx.hit('rmsd_trajectory_data')
            return
        self.X = M.gen_points(t, self.n, self.dim, self.dtype, self.jitter)
        if np.dtype(self.dtype).kind == 'f' and t.flag(1, 10):
            # the same geometry in other units (metres instead of nanometres, ...)
            self.scale = t.choice((1e-9, 1e-4, 1e5))
            self.X = np.ascontiguousarray((self.X.astype(np.float64) * self.scale).astype(self.dtype))
            if len({r.tobytes() for r in self.X}) != self.n:
                self.X = M.gen_points(t, self.n, self.dim, self.dtype, self.jitter)
                self.scale = 1.0
        self.model_metric = M.METRICS[self.metric_name]
        self.l2g = M.local_to_global(lengths, self.N)

    def tie_tol(self):
        if self.metric_name == 'rmsd':
            return 1e-5
        return 1e-6 if np.dtype(self.dtype) == np.float32 else 1e-9

    def cut_tol(self):
        if self.metric_name == 'rmsd':
            return 1e-5
        return 4e-6 if np.dtype(self.dtype) == np.float32 else 1e-11

    def noise(self, d):
        """absolute uncertainty of a reported distance beyond the relative tolerance (zero except for RMSD)"""
        return M.noise_for(self.metric_name)(d)

    def is_metric(self):
        """does the distance obey the triangle inequality (needed by the shortcut and by the 2-approximation bound)?"""
        return self.metric_name not in M.NON_METRIC

    def sut_metric(self):
        if self.metric_name == 'rmsd':
            import mdtraj as md
            return md.rmsd if self.rmsd_as_callable else 'rmsd'
        return M.sut_metric(self.metric_name)

    def wrap(self, arr):
        """the object the library is given for these coordinates: the array itself, or an md.Trajectory of them"""
        if self.metric_name != 'rmsd':
            return arr
        tr = M.as_traj(arr)
        if getattr(self, 'precentred', False):
            tr.center_coordinates()         # also caches the per-frame traces on the object
        return tr

    def unwrap(self, obj):
        return np.asarray(obj.xyz) if hasattr(obj, 'xyz') else obj

    def same_dist(self, a, b):
        """are two reported distance arrays the same values (bit for bit, except for RMSD whose last bits depend on the batch)"""
        a = np.asarray(a, dtype=float)
        b = np.asarray(b, dtype=float)
        if a.shape != b.shape:
            return False
        if self.metric_name != 'rmsd':
            return np.array_equal(a, b)
        return bool(np.all(np.abs(a - b) <= 4e-6 * np.maximum(np.abs(a), 1.0) + self.noise(np.minimum(a, b))))

    def data_unchanged(self, now, snap):
        """the caller's data after a call.  mdtraj's rmsd itself moves every frame it is given to its centroid, in place
        (its documented way of working), so for trajectories only the centred coordinates are compared"""
        now = self.unwrap(now)
        if self.metric_name != 'rmsd':
            return same(now, snap)
        a = np.asarray(now, dtype=np.float64)
        b = np.asarray(snap, dtype=np.float64)
        if a.shape != b.shape:
            return False
        return bool(np.allclose(a - a.mean(axis=1, keepdims=True), b - b.mean(axis=1, keepdims=True), rtol=0, atol=4e-6))

    def local(self, r):
        return np.ascontiguousarray(self.X[self.l2g[r]]).copy()

    def draw_stop(self, ctx, max_k=None):
        if max_k is None:
            max_k = 16 if (ctx.tier == 'thorough' and self.n > 60) else 8
        """Pick a stopping rule: n_clusters, cutoff or both; the cutoff is put
        strictly between two consecutive radii of the greedy replay (or far
        below / above all of them)."""
        t = ctx.tape
        kmax = min(max_k, self.n if self.metric_name != 'rmsd' else self.n - 1)     # RMSD: never down to 'every frame is a centre', where only rounding noise is left
        full, _ = M.greedy_run(self.X, self.model_metric, kmax, 0, tol=self.tie_tol())
        mode = t.draw(4)          # 0: k only, 1: cutoff only, 2: both, 3: both with None/inf spelling
        k = t.irange(1, kmax)
        cutoff = None
        if mode >= 1:
            radii = full.radii
            j = t.draw(len(radii))
            hi = radii[j]
            lo = radii[j + 1] if j + 1 < len(radii) else 0.0
            if hi > lo and t.flag(1, 3):
                # just below a radius: the run has to continue although the radius is barely above the cutoff
                eps = t.choice((1e-9, 1e-7, 5e-6, 1e-4))
                cutoff = float(hi * (1 - eps))
                if cutoff <= lo:
                    cutoff = float(lo + (hi - lo) / 2)
                else:
                    ctx.hit('cutoff_just_below_radius')
            elif hi > lo:
                cutoff = float(lo + (hi - lo) * (1 + t.draw(3)) / 4.0)
            else:
                cutoff = float(hi * 1.5 + 0.25)
            if cutoff <= 0:
                cutoff = None
        if mode == 1 and cutoff is None:
            mode = 0
        self.stop_mode = mode
        self.k = k if mode != 1 else None
        self.cutoff = cutoff
        return self.k, self.cutoff

    def describe(self):
        return dict(ranks=self.N, lengths=list(map(int, self.lengths)), dim=self.dim, dtype=self.dtype,
                    metric=self.metric_name, jitter=self.jitter, scale=self.scale,
                    X=[[float(v) for v in np.asarray(row).reshape(-1)] for row in self.X[:12]] + (['...'] if self.n > 12 else []))


def kc_kwargs(k, cutoff, spelling=0):
    """the ways a caller can spell the stopping rule for the function form"""
    kw = {}
    if k is not None:
        kw['n_clusters'] = k
    elif spelling == 1:
        kw['n_clusters'] = None
    if cutoff is not None:
        kw['dist_cutoff'] = cutoff
    elif spelling == 1 and k is not None:
        kw['dist_cutoff'] = None
    return kw


def make_world(ctx, n, poison_mode=0, suffix='', eager=True):
    """A world of n ranks.  The association order of reductions is a property of the (simulated) MPI
    implementation: it is drawn once per scenario and world size, so that two executions of one scenario
    differ in timing (arrival order, eager roots) but not in how the library sums - as on a real machine."""
    def tinit(r):
        if poison_mode:
            native.install_allocator()
    cache = ctx.__dict__.setdefault('_assoc', {})
    if n not in cache:
        cache[n] = ctx.tape.perm(n, 'assoc') if n > 2 else list(range(n))
    return simmpi.World(n, ctx.tape, digest=ctx.log, eager=eager, thread_init=tinit, suffix=suffix, assoc=cache[n])


class Poison:
    """Context: poisoned heap for the main thread (rank threads install it themselves)."""

    def __init__(self, ctx, mode, seed=1):
        self.mode = mode
        self.ctx = ctx
        self.seed = seed

    def __enter__(self):
        if self.mode:
            native.poison(self.mode, self.seed)
            native.install_allocator()
            native.reset_redzone()
            self.ctx.fault('poison_' + native.POISON_MODES[self.mode])
        return self

    def __exit__(self, *a):
        if self.mode:
            bad = native.redzone_bad()
            native.uninstall_allocator()
            native.poison(0, 1)
            if bad and a[0] is None:
                raise SimViolation('out_of_bounds_write', '%d heap buffers with damaged red zones' % bad)
        return False


def same(a, b):
    a = np.asarray(a)
    b = np.asarray(b)
    return a.shape == b.shape and a.dtype == b.dtype and np.array_equal(a, b, equal_nan=True)
