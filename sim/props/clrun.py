"""Run one clustering configuration serially or on N simulated ranks and hand
back the result in global frame order (re-assembled by the harness from the
striping model, not by the library: the library's reassembly is C14's subject)."""
import numpy as np

from ..core.run import require
from ..engines.simmpi import SimViolation
from ..models import cluster as M
from . import clcommon as C


def ctr(c):
    """centre coordinates as an array: a 1-frame md.Trajectory gives its (atoms, 3) frame"""
    if hasattr(c, 'xyz'):
        x = np.array(c.xyz)
        return x[0] if len(x) == 1 else x
    return np.array(c)


class GResult:
    """A clustering result in global frame order."""

    def __init__(self, ci, centers, labels, distances):
        self.ci = [int(c) for c in ci]
        self.centers = [ctr(c) for c in centers]
        self.labels = np.asarray(labels)
        self.distances = np.asarray(distances)

    def key(self):
        return (tuple(self.ci), self.labels.tobytes(), self.distances.tobytes())


def make_estimator(cls, metric, late, fixed, params):
    """Build an estimator.  late = 0: everything through the constructor; 1: constructed with other stopping values and then
    configured with set_params (the sklearn way, e.g. when one object is re-used in a parameter scan); 2: by attribute assignment."""
    if not late:
        return cls(metric, **fixed, **params)
    decoy = {}
    for k_, v in params.items():
        if k_ == 'cluster_radius':
            decoy[k_] = (v or 1.0) * 3 + 1
        else:
            decoy[k_] = (v or 1) + 2
    est = cls(metric, **fixed, **decoy)
    if late == 1:
        est.set_params(**params)
    else:
        for k_, v in params.items():
            setattr(est, k_, v)
    return est


def _call(e, spec, X, metric, local=False, lengths=None):
    """the actual library call for one party (the serial process or one rank)"""
    algo = spec['algo']
    form = spec.get('form', 'function')
    mpi_mode = spec.get('mpi', False)
    kw = C.kc_kwargs(spec.get('k'), spec.get('cutoff'), spec.get('spelling', 0))
    init = spec.get('init_centers')
    if algo == 'kcenters':
        if form == 'estimator':
            est = make_estimator(e['kcenters'].KCenters, metric, spec.get('late_params', 0), dict(mpi_mode=mpi_mode),
                                 dict(n_clusters=spec.get('k'), cluster_radius=spec.get('cutoff')))
            est.fit(X, init_centers=init)
            return est.result_, est
        extra = {}
        if init is not None:
            extra['init_centers'] = init
        return e['kcenters'].kcenters(X, metric, mpi_mode=mpi_mode,
                                      use_triangle_inequality=spec.get('tri', False), **kw, **extra), None
    if algo == 'hybrid':
        if form == 'estimator':
            if spec.get('seed_via_set_params'):
                # the sklearn way: build the object first, configure it afterwards
                est = e['hybrid'].KHybrid(metric, n_clusters=spec.get('k'), cluster_radius=spec.get('cutoff'),
                                          kmedoids_updates=spec['n_iters'], mpi_mode=mpi_mode)
                est.set_params(random_state=spec.get('random_state'))
            else:
                est = make_estimator(e['hybrid'].KHybrid, metric, spec.get('late_params', 0),
                                     dict(random_state=spec.get('random_state'), mpi_mode=mpi_mode),
                                     dict(n_clusters=spec.get('k'), cluster_radius=spec.get('cutoff'), kmedoids_updates=spec['n_iters']))
            est.fit(X, init_centers=init)
            return est.result_, est
        extra = {}
        if init is not None:
            extra['init_centers'] = init
        return e['hybrid'].hybrid(X, metric, n_iters=spec['n_iters'], mpi_mode=mpi_mode,
                                  random_state=spec.get('random_state'), **kw, **extra), None
    if algo == 'kmedoids':
        warm = spec.get('warm_local' if local else 'warm')
        kws = dict(n_iters=spec['n_iters'])
        if warm is not None:
            lab, dist, cinds = warm
            if lab is not None:
                kws['assignments'] = lab
                kws['distances'] = dist
            if cinds is not None:
                kws['cluster_center_inds'] = cinds
        else:
            kws['n_clusters'] = spec['k']
        if lengths is not None:
            kws['X_lengths'] = lengths
        if form == 'estimator':
            est = make_estimator(e['kmedoids'].KMedoids, metric, spec.get('late_params', 0) if 'n_clusters' in kws else 0, {},
                                 dict(n_clusters=kws.pop('n_clusters', None), n_iters=kws.pop('n_iters')))
            est.fit(X, **kws)
            return est.result_, est
        if spec.get('proposals') is not None:
            kws['proposals'] = spec['proposals_local'] if local else spec['proposals']
        if 'random_state' in spec:
            kws['random_state'] = spec['random_state']
        return e['kmedoids'].kmedoids(X, metric, **kws), None
    raise ValueError(algo)


def strided_view(X, mode):
    """the same values in a non-contiguous layout (a view into a larger buffer)"""
    n, d = X.shape
    if mode == 1:
        big = np.zeros((2 * n + 1, d), dtype=X.dtype)
        v = big[1::2][:n]
    elif mode == 2:
        big = np.zeros((n, 2 * d + 1), dtype=X.dtype)
        v = big[:, 1::2][:, :d]
    else:
        return np.asfortranarray(X)
    v[...] = X
    return v


def run_serial(ctx, e, P, spec, X=None, poison=0, seed=1):
    X = P.X.copy() if X is None else X
    layout = spec.get('layout', 0)
    if layout and X.ndim == 2:
        X = strided_view(X, layout)          # callers hand in slices of larger arrays (every other frame, selected features)
    snap = X.copy()
    with C.Poison(ctx, poison, seed=seed):
        Xw = P.wrap(X)
        res, est = ctx.sut(_call, e, spec, Xw, P.sut_metric())
        res = type(res)(center_indices=[int(c) for c in res.center_indices], distances=np.array(res.distances),
                        assignments=np.array(res.assignments), centers=[ctr(c) for c in res.centers])
    require(P.data_unchanged(Xw, snap), 'input_modified', 'serial %s modified its data array' % spec['algo'])
    check_copies(ctx, res, est)
    g = GResult(res.center_indices, res.centers, res.assignments, res.distances)
    g.est = est
    g.raw = res
    return g


def _same_field(a, b):
    if isinstance(a, (list, tuple)):
        return isinstance(b, (list, tuple)) and len(a) == len(b) and all(_same_field(x, y) for x, y in zip(a, b))
    return np.array_equal(ctr(a), ctr(b))


def check_copies(ctx, res, est):
    """A result (and a fitted estimator) that went through pickle or deepcopy - to another process, into a checkpoint - reports
    the same clustering.  Only demanded when the copy can be made at all."""
    import copy
    import pickle
    for how, fn in (('pickle', lambda o: pickle.loads(pickle.dumps(o))), ('deepcopy', copy.deepcopy)):
        try:
            r2 = fn(res)
        except Exception:       # noqa: not being copyable is not what is checked here
            ctx.count('result_not_copyable')
            continue
        for f in ('center_indices', 'assignments', 'distances', 'centers'):
            require(_same_field(getattr(r2, f), getattr(res, f)), 'copy_differs',
                    lambda: 'after a %s round trip the result reports other %s: %s vs %s' % (how, f, getattr(r2, f), getattr(res, f)))
        ctx.postcond('result_survives_' + how)
    if est is not None:
        try:
            e2 = copy.deepcopy(est)
        except Exception:       # noqa
            ctx.count('estimator_not_copyable')
            return
        for f in ('labels_', 'distances_', 'center_indices_'):
            require(_same_field(getattr(e2, f), getattr(est, f)), 'copy_differs',
                    lambda: 'a deep copy of the fitted estimator reports other %s' % f)
        ctx.postcond('estimator_survives_deepcopy')


def run_mpi(ctx, e, P, spec, poison=0, suffix='', seed=1):
    """Same configuration on P.N ranks.  Per-rank warm-start state and proposals
    are derived by the caller (spec['warm_local'][r], spec['proposals_local'])."""
    N = P.N
    locals_ = [P.local(r) for r in range(N)]
    snaps = [x.copy() for x in locals_]
    wrapped = [P.wrap(x) for x in locals_]
    metric = P.sut_metric()
    lengths = list(map(int, P.lengths))

    def rank_fn(r):
        sp = dict(spec)
        sp['mpi'] = True
        if spec.get('per_rank_rng') and isinstance(sp.get('random_state'), int):
            # every rank brings its own generator (as with an unseeded job under mpiexec): only rank 0's may matter
            sp['random_state'] = np.random.RandomState(sp['random_state'] + 7919 * r)
        if 'warm_by_rank' in spec:
            sp['warm_local'] = spec['warm_by_rank'][r]
        res, est = _call(e, sp, wrapped[r], metric, local=True,
                         lengths=(lengths.copy() if isinstance(lengths, np.ndarray) else list(lengths)) if spec['algo'] == 'kmedoids' else None)
        return dict(ci=[(int(a), int(b)) for a, b in res.center_indices], d=np.array(res.distances),
                    a=np.array(res.assignments), centers=[ctr(c) for c in res.centers])

    with C.Poison(ctx, poison, seed=seed):
        w = C.make_world(ctx, N, poison, suffix=suffix)
        outs = w.run(rank_fn)
    st = w.stats()
    ctx.steps += st['collectives'] + st['decisions']
    ctx.count('collectives', st['collectives'])
    ctx.count('sched_decisions', st['decisions'])
    ctx.fault('eager_bcast', st['eager'])
    if st['reassoc']:
        ctx.fault('allreduce_reassociated', st['reassoc'])
    if st['decisions'] > 0 and N >= 2:
        ctx.nontrivial = True
    ctx.fp(tuple(w.sched_trace))
    n = P.n
    d = np.full(n, np.nan)
    a = np.full(n, -7, dtype=int)
    for r in range(N):
        require(P.data_unchanged(wrapped[r], snaps[r]), 'input_modified', 'rank %d data array changed' % r)
        o = outs[r]
        require(len(o['d']) == len(P.l2g[r]) and len(o['a']) == len(P.l2g[r]), 'bad_shape',
                lambda: 'rank %d returned %d/%d values for %d local frames' % (r, len(o['d']), len(o['a']), len(P.l2g[r])))
        require(o['ci'] == outs[0]['ci'], 'ranks_disagree',
                lambda: 'centre list differs between rank 0 and %d: %s vs %s' % (r, outs[0]['ci'], o['ci']))
        require(len(o['centers']) == len(outs[0]['centers']) and
                all((C.same(x, y) if P.metric_name != 'rmsd' else M.frame_equal('rmsd', x, y))      # RMSD: mdtraj centres frames in place
                    for x, y in zip(o['centers'], outs[0]['centers'])), 'ranks_disagree',
                lambda: 'centre coordinates differ between rank 0 and %d' % r)
        d[P.l2g[r]] = o['d']
        a[P.l2g[r]] = o['a']
    ci = []
    for owner, li in outs[0]['ci']:
        require(0 <= owner < N and 0 <= li < len(P.l2g[owner]), 'center_index_out_of_data',
                lambda: 'centre (rank %d, local %d) does not exist (N=%d, local sizes %s)' %
                (owner, li, N, [len(x) for x in P.l2g]))
        ci.append(int(P.l2g[owner][li]))
    if len(set(o for o, _ in outs[0]['ci'])) > 1:
        ctx.hit('centers_on_several_ranks')
    g = GResult(ci, outs[0]['centers'], a, d)
    g.local_ci = outs[0]['ci']
    g.outs = outs
    return g


def run_serial_inside_world(ctx, e, P, spec, suffix=''):
    """Every rank of an N-rank job clusters its OWN data with the serial algorithm (mpi_mode=False given explicitly): N
    independent serial runs that happen to share a communicator.  Returns one GResult per rank (local frame indices)."""
    N = P.N
    snaps = [P.local(r) for r in range(N)]
    wrapped = [P.wrap(x.copy()) for x in snaps]
    metric = P.sut_metric()

    def rank_fn(r):
        sp = dict(spec)
        sp['mpi'] = False
        res, est = _call(e, sp, wrapped[r], metric)
        if any(hasattr(c, '__len__') for c in res.center_indices):
            raise SimViolation('distributed_result_in_serial_mode', 'rank %d asked for mpi_mode=False and got (rank, index) centre pairs %s'
                               % (r, list(res.center_indices)[:4]))
        return dict(ci=[int(c) for c in res.center_indices], d=np.array(res.distances), a=np.array(res.assignments),
                    centers=[ctr(c) for c in res.centers])
    w = C.make_world(ctx, N, 0, suffix=suffix)
    outs = w.run(rank_fn)
    st = w.stats()
    ctx.steps += st['collectives'] + st['decisions']
    ctx.fp(tuple(w.sched_trace))
    out = []
    for r in range(N):
        require(P.data_unchanged(wrapped[r], snaps[r]), 'input_modified', 'rank %d data array changed' % r)
        o = outs[r]
        out.append(GResult(o['ci'], o['centers'], o['a'], o['d']))
    return out


def to_local_state(P, labels, distances):
    """split a global (labels, distances) state into per-rank local arrays"""
    return [(np.ascontiguousarray(labels[P.l2g[r]]).copy(), np.ascontiguousarray(distances[P.l2g[r]]).copy())
            for r in range(P.N)]


def global_to_rank_local(P, g):
    """global frame index -> (owner rank, local index)"""
    for r in range(P.N):
        w = np.where(P.l2g[r] == g)[0]
        if len(w):
            return (r, int(w[0]))
    raise ValueError(g)


def global_to_traj_frame(P, g):
    starts = np.concatenate([[0], np.cumsum(P.lengths)[:-1]])
    t = int(np.searchsorted(starts, g, side='right') - 1)
    return [t, int(g - starts[t])]


# ---------------------------------------------------------------- sweep histories
class State:
    """(centre indices, labels, distances) in global frame order"""

    def __init__(self, ci, labels, distances):
        self.ci = [int(c) for c in ci]
        self.labels = np.asarray(labels).astype(int).copy()
        self.distances = np.asarray(distances, dtype=float).copy()

    @classmethod
    def of(cls, g):
        return cls(g.ci, g.labels, g.distances)

    def cost(self):
        return M.cost(self.distances)


def pam_branches(P, st, cid, prop_frame):
    """how many frames go through each of the three reassignment branches
    when `prop_frame` is proposed for cluster `cid` (model side, for reach probes)"""
    nd = P.model_metric(P.X, P.X[prop_frame])
    dn = st.distances > nd
    up_other = (st.distances <= nd) & (st.labels != cid)
    up_this = (st.distances <= nd) & (st.labels == cid)
    return int(dn.sum()), int(up_other.sum()), int(up_this.sum())


def one_sweep(ctx, e, P, st, spec_extra, mpi, poison=0, cinds_form=0, suffix=''):
    """One k-medoids sweep through the public warm-start interface.
    spec_extra carries either proposals (global frame per cluster) or random_state."""
    spec = dict(algo='kmedoids', n_iters=1, form=spec_extra.get('form', 'function'))
    props = spec_extra.get('proposals')
    if 'random_state' in spec_extra:
        spec['random_state'] = spec_extra['random_state']
    if 'est_n_clusters' in spec_extra:
        spec['est_n_clusters'] = spec_extra['est_n_clusters']
    if spec_extra.get('per_rank_rng'):
        spec['per_rank_rng'] = True
    if cinds_form == 1:
        cinds = [global_to_traj_frame(P, c) for c in st.ci]
    elif cinds_form == 2 and not mpi:
        cinds = np.array(st.ci)
    else:
        cinds = list(st.ci)
    snaps = []
    if mpi:
        loc = to_local_state(P, st.labels, st.distances)
        spec['warm_by_rank'] = [(loc[r][0], loc[r][1], [list(c) if isinstance(c, list) else c for c in cinds]
                                 if cinds_form == 1 else list(cinds)) for r in range(P.N)]
        snaps = [(a.copy(), b.copy()) for a, b in loc]
        cinds_snaps = [[list(c) if isinstance(c, list) else c for c in w_[2]] for w_ in spec['warm_by_rank']] if cinds_form == 1 else None
        if props is not None:
            spec['proposals'] = True
            spec['proposals_local'] = [global_to_rank_local(P, p) for p in props]
        g = run_mpi(ctx, e, P, spec, poison=poison, suffix=suffix)
        for r in range(P.N):
            require(C.same(loc[r][0], snaps[r][0]) and C.same(loc[r][1], snaps[r][1]), 'input_modified',
                    'rank %d: warm-start labels/distances arrays were modified' % r)
            if cinds_snaps is not None:
                # (trajectory, frame) pairs are translated to (rank, local frame) for internal use: the caller's list keeps
                # saying what the caller wrote (it may start another run from it)
                now = [list(c) if isinstance(c, (list, tuple)) else c for c in spec['warm_by_rank'][r][2]]
                require(now == cinds_snaps[r], 'input_modified', lambda: 'rank %d: the list of (trajectory, frame) centre pairs passed in '
                        'was rewritten: %s -> %s' % (r, cinds_snaps[r], now))
    else:
        lab, dist = st.labels.copy(), st.distances.copy()
        spec['warm'] = (lab, dist, cinds)
        if cinds_form == 1:
            spec['X_lengths'] = list(map(int, P.lengths))
        if props is not None:
            spec['proposals'] = list(props)
        cin_snap = cinds.copy() if isinstance(cinds, np.ndarray) else None
        g = run_serial_km(ctx, e, P, spec)
        require(C.same(lab, st.labels) and C.same(dist, st.distances), 'input_modified',
                'warm-start labels/distances arrays were modified')
        if cin_snap is not None:
            require(C.same(cinds, cin_snap), 'input_modified',
                    lambda: 'the cluster_center_inds array passed in was modified: %s -> %s' % (cin_snap, cinds))
    return g


def run_serial_km(ctx, e, P, spec):
    snap = P.X.copy()
    X = P.wrap(P.X.copy())
    sp = dict(spec)

    def call():
        kws = dict(n_iters=sp['n_iters'])
        lab, dist, cinds = sp['warm']
        if lab is not None:
            kws['assignments'], kws['distances'] = lab, dist
        if cinds is not None:
            kws['cluster_center_inds'] = cinds
        if 'X_lengths' in sp:
            kws['X_lengths'] = sp['X_lengths']
        if sp.get('form') == 'estimator':
            est = e['kmedoids'].KMedoids(P.sut_metric(), n_clusters=sp.get('est_n_clusters'), n_iters=kws.pop('n_iters'))
            est.fit(X, **kws)
            return est.result_
        if sp.get('proposals') is not None:
            kws['proposals'] = sp['proposals']
        if 'random_state' in sp:
            kws['random_state'] = sp['random_state']
        return e['kmedoids'].kmedoids(X, P.sut_metric(), **kws)
    res = ctx.sut(call)
    require(P.data_unchanged(X, snap), 'input_modified', 'k-medoids modified its data array')
    g = GResult(res.center_indices, res.centers, res.assignments, res.distances)
    g.raw = res
    return g
