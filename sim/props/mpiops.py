"""Operation runs for C14 (and the striped loaders shared with C15): each
enspara.mpi operation on N simulated ranks against its serial definition."""
import os

import numpy as np

from ..core.run import require, Skip
from ..engines.simmpi import SimViolation
from ..models import cluster as M
from . import clcommon as C

OPS = ('striped_array_max', 'striped_array_mean', 'assemble_striped_array', 'assemble_striped_ragged_array',
       'convert_local_indices', 'distribute_frame', 'distribute_frame_traj', 'randind', 'ctr_ids_mpi',
       'load_npy_as_striped', 'load_h5_as_striped', 'load_trajectory_as_striped')


def run_world(ctx, N, fn, poison=0, seed=1):
    with C.Poison(ctx, poison, seed=seed):
        w = C.make_world(ctx, N, poison)
        outs = w.run(fn)
    st = w.stats()
    ctx.steps += st['collectives'] + st['decisions']
    ctx.count('collectives', st['collectives'])
    ctx.count('sched_decisions', st['decisions'])
    ctx.fault('eager_bcast', st['eager'])
    if st['reassoc']:
        ctx.fault('allreduce_reassociated', st['reassoc'])
    if st['decisions'] > 0 and N >= 2:
        ctx.nontrivial = True
    if st['eager'] and st['max_skew'] > 1:
        ctx.hit('eager_root_ran_ahead')
    ctx.fp(tuple(w.sched_trace))
    return outs


def all_equal(outs, what):
    for r in range(1, len(outs)):
        a, b = outs[0], outs[r]
        ok = C.same(a, b) if isinstance(a, np.ndarray) else (a == b)
        require(ok, 'ranks_disagree', lambda: '%s: rank 0 has %r, rank %d has %r' % (what, a, r, b))


def ops_scenario(ctx, prop='C14', only=None):
    t = ctx.tape
    e = C.E()
    ops = e['mpi'].ops
    max_ranks = 12 if ctx.tier == 'thorough' else 8
    N = t.irange(1, max_ranks)
    op = t.choice(only or OPS)
    poison = t.draw(7) if t.flag(2, 3) else 0
    ctx.scenario.update(family='op', op=op, ranks=N, poison=poison)
    ctx.count('op_' + op)
    globals()['op_' + op](ctx, e, ops, N, poison)


# ------------------------------------------------------------------ reductions
def _striped_values(ctx, N, allow_empty=False, kind='float'):
    t = ctx.tape
    n_total = t.irange(N, 4 * N + 3)
    if kind == 'float':
        rs = np.random.RandomState(t.draw(2 ** 31 - 1))
        vals = (np.array(t.block(n_total, 64), dtype=np.float64) - 20) / 8.0 + rs.uniform(-0.05, 0.05, n_total)
    else:
        vals = np.array(t.block(n_total, 50), dtype=np.int64) + 1
    return vals


def op_striped_array_max(ctx, e, ops, N, poison):
    vals = _striped_values(ctx, N)
    if ctx.tape.flag(1, 3):
        vals = -np.abs(vals) - 0.25          # log-likelihoods, energies: every value below zero
        ctx.hit('striped_max_of_negative_values')
    ctx.fp('max', N, vals.tobytes())
    ctx.scenario['values'] = vals.tolist()
    outs = run_world(ctx, N, lambda r: ops.striped_array_max(vals[r::N].copy()), poison)
    for r, o in enumerate(outs):
        require(o == vals.max(), 'wrong_max', lambda: 'rank %d got %r, max is %r' % (r, o, vals.max()))


def op_striped_array_mean(ctx, e, ops, N, poison):
    t = ctx.tape
    vals = np.abs(_striped_values(ctx, N)) + 0.01     # the routine asserts global_sum >= local_sum
    if N >= 2 and t.flag(1, 4):
        vals = vals[:t.irange(1, N - 1)]              # fewer elements than ranks: some ranks hold nothing
        ctx.hit('striped_mean_with_empty_shares')
    # uneven share: rank r gets vals[r::N]
    ctx.fp('mean', N, vals.tobytes())
    ctx.scenario['values'] = vals.tolist()
    outs = run_world(ctx, N, lambda r: ops.striped_array_mean(vals[r::N].copy()), poison)
    exact = float(np.sum(vals.astype(np.longdouble)) / len(vals))
    tol = 4 * len(vals) * np.finfo(float).eps * max(abs(exact), np.abs(vals).max())
    for r, o in enumerate(outs):
        require(abs(float(o) - exact) <= tol, 'wrong_mean', lambda: 'rank %d got %.17g, mean is %.17g (n=%d)' %
                (r, o, exact, len(vals)))
    all_equal([float(o) for o in outs], 'striped_array_mean')


def op_assemble_striped_array(ctx, e, ops, N, poison):
    t = ctx.tape
    vals = _striped_values(ctx, N, kind='int')
    two_d = t.flag(1, 4)
    if two_d:
        vals = np.stack([vals, vals + 1], axis=1)
    ctx.fp('asa', N, vals.tobytes())
    ctx.scenario['values'] = vals.tolist()
    outs = run_world(ctx, N, lambda r: ops.assemble_striped_array(np.ascontiguousarray(vals[r::N])), poison)
    for r, o in enumerate(outs):
        require(C.same(np.asarray(o), vals), 'wrong_gather', lambda: 'rank %d assembled %s, expected %s' %
                (r, np.asarray(o).tolist(), vals.tolist()))


def _lengths(ctx, N):
    t = ctx.tape
    n_traj = N + t.draw(2 * N + 1)
    return M.gen_lengths(t, n_traj, 7)


def op_assemble_striped_ragged_array(ctx, e, ops, N, poison):
    t = ctx.tape
    lengths = _lengths(ctx, N)
    total = sum(lengths)
    dt = t.choice(('float64', 'int64', 'float32', 'int32'))
    vals = (np.arange(total) * 3 + np.array(t.block(total, 3))).astype(dt)     # non-negative, distinct
    l2g = M.local_to_global(lengths, N)
    for ix in l2g:
        if len(ix) == 1:
            ctx.hit('rank_with_single_frame')
    for trajs in M.stripe(lengths, N):
        ls = [lengths[i] for i in trajs]
        if len(ls) >= 2 and len(set(ls)) == 1 and len(set(lengths)) > 1:
            ctx.hit('equal_length_group_on_rank')
    ctx.fp('asra', N, tuple(lengths), dt, vals.tobytes())
    ctx.scenario.update(lengths=lengths, dtype=dt)
    L = np.array(lengths)
    outs = run_world(ctx, N, lambda r: ops.assemble_striped_ragged_array(vals[l2g[r]].copy(), L.copy()), poison)
    for r, o in enumerate(outs):
        require(C.same(np.asarray(o), vals), 'reassembly_wrong', lambda: 'rank %d assembled %s (%s), expected %s' %
                (r, np.asarray(o).tolist(), np.asarray(o).dtype, vals.tolist()))


def op_convert_local_indices(ctx, e, ops, N, poison):
    t = ctx.tape
    lengths = _lengths(ctx, N)
    l2g = M.local_to_global(lengths, N)
    pairs = []
    for _ in range(t.irange(1, 6)):
        r = t.draw(N)
        pairs.append((r, t.draw(len(l2g[r]))))
    ctx.fp('cli', N, tuple(lengths), tuple(pairs))
    ctx.scenario.update(lengths=lengths, pairs=pairs)
    L = np.array(lengths)
    outs = run_world(ctx, N, lambda r: [int(x) for x in ops.convert_local_indices(list(pairs), L.copy())], poison)
    want = [int(l2g[r][i]) for r, i in pairs]
    for r, o in enumerate(outs):
        require(o == want, 'index_conversion_wrong', lambda: 'rank %d: %s -> %s, striping says %s' % (r, pairs, o, want))


def op_ctr_ids_mpi(ctx, e, ops, N, poison):
    t = ctx.tape
    lengths = _lengths(ctx, N)
    l2g = M.local_to_global(lengths, N)
    total = sum(lengths)
    starts = np.concatenate([[0], np.cumsum(lengths)[:-1]])
    gl = sorted({t.draw(total) for _ in range(t.irange(1, 5))})
    as_pairs = t.flag()
    if as_pairs:
        inp = []
        for g in gl:
            tr = int(np.searchsorted(starts, g, side='right') - 1)
            inp.append([tr, int(g - starts[tr])])
    else:
        inp = [int(g) for g in gl]
    ctx.fp('cim', N, tuple(lengths), tuple(gl), as_pairs)
    ctx.scenario.update(lengths=lengths, centers=inp)
    f = e['kmedoids'].ctr_ids_mpi
    outs = run_world(ctx, N, lambda r: [(int(a), int(b)) for a, b in f(list(inp), list(lengths))], poison)
    for r, o in enumerate(outs):
        got = [int(l2g[a][b]) if 0 <= a < N and 0 <= b < len(l2g[a]) else None for a, b in o]
        require(got == gl, 'index_conversion_wrong', lambda: 'rank %d: global frames %s -> (rank, local) %s which '
                'address frames %s' % (r, gl, o, got))


def op_distribute_frame(ctx, e, ops, N, poison):
    t = ctx.tape
    lengths = [t.irange(1, 4) for _ in range(N)]
    dim = t.irange(1, 3)
    dt = t.choice(('float64', 'float32', 'int64'))
    datas = [((np.arange(L * dim).reshape(L, dim) + 100 * r + 1)).astype(dt) for r, L in enumerate(lengths)]
    reqs = []
    for _ in range(t.irange(1, 4)):
        o = t.draw(N)
        reqs.append((o, t.draw(lengths[o])))
    ctx.fp('df', N, tuple(lengths), dim, dt, tuple(reqs))
    ctx.scenario.update(lengths=lengths, dtype=dt, requests=reqs)
    if len({o for o, _ in reqs}) > 1:
        ctx.hit('farthest_point_changed_owner')

    def fn(r):
        return [np.array(ops.distribute_frame(datas[r], i, o)) for o, i in reqs]
    outs = run_world(ctx, N, fn, poison)
    for r, got in enumerate(outs):
        for (o, i), g in zip(reqs, got):
            require(C.same(g, datas[o][i]), 'wrong_frame', lambda: 'rank %d received %s for frame %d of rank %d, '
                    'which is %s' % (r, g, i, o, datas[o][i]))


def _topology(n_atoms):
    import mdtraj as md
    top = md.Topology()
    ch = top.add_chain()
    for i in range(n_atoms):
        res = top.add_residue('ALA', ch)
        top.add_atom('CA', md.element.carbon, res)
    return top


def op_distribute_frame_traj(ctx, e, ops, N, poison):
    import mdtraj as md
    t = ctx.tape
    n_atoms = t.irange(1, 4)
    top = _topology(n_atoms)
    lengths = [t.irange(1, 3) for _ in range(N)]
    trjs = [md.Trajectory((np.arange(L * n_atoms * 3).reshape(L, n_atoms, 3) + 1000 * r + 1).astype('float32') / 8, top)
            for r, L in enumerate(lengths)]
    o = t.draw(N)
    i = t.draw(lengths[o])
    ctx.fp('dft', N, tuple(lengths), n_atoms, o, i)
    ctx.scenario.update(lengths=lengths, owner=o, index=i)
    outs = run_world(ctx, N, lambda r: np.array(ops.distribute_frame(trjs[r], i, o).xyz), poison)
    for r, g in enumerate(outs):
        require(C.same(g, trjs[o][i].xyz), 'wrong_frame', lambda: 'rank %d received wrong trajectory frame' % r)


def op_randind(ctx, e, ops, N, poison):
    t = ctx.tape
    striped = t.flag()
    if striped:
        # a genuinely striped array: element j of the whole array lives on rank j % N
        total = t.irange(1, 4 * N)
        lens = [len(range(r, total, N)) for r in range(N)]
    else:
        # arbitrary local lengths, zeros allowed (members of one cluster, none on some rank)
        lens = [t.draw(4) for _ in range(N)]
        if sum(lens) == 0:
            lens[t.draw(N)] = 1
        total = sum(lens)
    if 0 in lens:
        ctx.hit('op_randind_empty_local')
    seeds = [t.draw(10000) for _ in range(3)]
    ctx.fp('ri', N, tuple(lens), tuple(seeds))
    ctx.scenario.update(local_lengths=lens, seeds=seeds, striped=striped)
    as_state = t.flag()

    def fn(r):
        out = []
        for sd in seeds:
            rs = np.random.RandomState(sd) if as_state else sd
            o, i = ops.randind(np.arange(lens[r]), rs)
            out.append((int(o), int(i)))
        return out
    outs = run_world(ctx, N, fn, poison)
    all_equal(outs, 'randind')
    gs = [int(np.random.RandomState(sd).randint(total)) for sd in seeds]
    for g, (o, i) in zip(gs, outs[0]):
        require(0 <= o < N and 0 <= i < lens[o], 'randind_out_of_range',
                lambda: 'randind returned (rank %d, index %d) but local lengths are %s' % (o, i, lens))
        if striped:
            require((o, i) == (g % N, g // N), 'randind_wrong_element', lambda: 'draw %d of %d in a striped array is '
                    'element %d of rank %d, got (rank %d, index %d)' % (g, total, g // N, g % N, o, i))
    # whatever the layout, the map from the drawn global index to an element must be one-to-one
    seen = {}
    for g, oi in zip(gs, outs[0]):
        require(seen.setdefault(g, oi) == oi, 'randind_not_function', 'same draw, different element')
    require(len(set(seen.values())) == len(seen), 'randind_not_injective',
            lambda: 'distinct draws %s map to elements %s (lengths %s)' % (gs, outs[0], lens))


# ------------------------------------------------------------------ striped loaders
def op_load_npy_as_striped(ctx, e, ops, N, poison):
    t = ctx.tape
    io = e['mpi'].io
    n_files = N + t.draw(N + 2)
    dim = t.irange(1, 3)
    dt = t.choice(('float64', 'float32', 'int32'))
    stride = 1 if t.flag(2, 3) else t.irange(2, 4)
    d = ctx.scratch()
    files, arrays = [], []
    for i in range(n_files):
        L = t.irange(1, 6)
        a = (np.arange(L * dim).reshape(L, dim) * 2 + 1000 * i + 1).astype(dt)
        fn = os.path.join(d, 'f%02d.npy' % i)
        np.save(fn, a)
        files.append(fn)
        arrays.append(a)
    ctx.fp('npy', N, tuple(len(a) for a in arrays), dim, dt, stride)
    ctx.scenario.update(files=n_files, lengths=[len(a) for a in arrays], stride=stride, dtype=dt)
    outs = run_world(ctx, N, lambda r: io.load_npy_as_striped(list(files), stride=stride), poison)
    check_striped_load(ctx, N, outs, arrays, stride, 'load_npy_as_striped')
    if t.flag(1, 3):
        # what was loaded belongs to the caller: the files are written again with other numbers (same shape), the loaded
        # arrays still hold what was read - and the caller can write into them
        for fn, a in zip(files, arrays):
            np.save(fn, (a + 7).astype(dt))
        check_striped_load(ctx, N, outs, arrays, stride, 'load_npy_as_striped (files rewritten after the load)')
        for r, (gl, data) in enumerate(outs):
            require(np.asarray(data).flags.writeable, 'loaded_array_read_only', lambda: 'rank %d got a read-only array' % r)
        ctx.hit('env_files_rewritten_after_load')


def check_striped_load(ctx, N, outs, arrays, stride, what):
    want_len = [len(a[::stride]) for a in arrays]
    for r, (gl, data) in enumerate(outs):
        gl = [int(x) for x in gl]
        require(gl == want_len, 'wrong_global_lengths', lambda: '%s rank %d: global_lengths %s, the loaded rows have '
                'lengths %s (stride %d)' % (what, r, gl, want_len, stride))
        mine = [a[::stride] for a in arrays[r::N]]
        want = np.concatenate(mine)
        require(C.same(np.asarray(data), want), 'wrong_share', lambda: '%s rank %d of %d: got shape %s dtype %s, '
                'expected its share of shape %s dtype %s%s' % (what, r, N, np.asarray(data).shape, np.asarray(data).dtype,
                                                              want.shape, want.dtype,
                                                              '' if np.asarray(data).shape != want.shape else ' (values differ)'))


def op_load_h5_as_striped(ctx, e, ops, N, poison):
    import tables
    t = ctx.tape
    io = e['mpi'].io
    ra = e['ra']
    n_rows = N + t.draw(N + 2)
    if t.flag(1, 4):
        n_rows = max(n_rows, 10 + t.draw(4))         # cross the padding boundary of the row names
    dim = t.draw(3)          # 0 => 1-D elements
    dt = t.choice(('float64', 'float32', 'int32', 'int64'))
    stride = 1 if t.flag(2, 3) else t.irange(2, 4)
    lens = [t.irange(1, 6) for _ in range(n_rows)]
    if n_rows >= 2 and len(set(lens)) == 1 and t.flag():
        lens[0] += 1
    rows = []
    for i, L in enumerate(lens):
        shp = (L,) if dim == 0 else (L, dim)
        rows.append((np.arange(int(np.prod(shp))).reshape(shp) * 2 + 1000 * i + 1).astype(dt))
    if N > n_rows:
        raise Skip('fewer rows than ranks')
    fn = os.path.join(ctx.scratch(), 'feat.h5')
    writer = t.draw(3)       # 0/1: the library's own ra.save; 2: a file written by another tool (any node names)
    if writer < 2:
        arr = ra.RaggedArray(np.concatenate(rows), lengths=lens)
        ctx.sut(ra.save, fn, arr, compression_level=t.choice((0, 1, 9)))
        order = list(range(n_rows))
    else:
        style = t.draw(3)
        if style == 0:
            names = ['arr_%d' % i for i in range(n_rows)]              # not zero padded
        elif style == 1:
            names = ['t%03d' % (7 * i % 1000) for i in range(n_rows)]
        else:
            names = ['k%s' % ''.join(chr(97 + t.draw(3)) for _ in range(2)) + str(i) for i in range(n_rows)]
        with tables.open_file(fn, 'w') as h:
            for nm, row in zip(names, rows):
                h.create_array('/', nm, row)
        # the serial definition: rows in the order the file lists its nodes (by name)
        order = sorted(range(n_rows), key=lambda i: names[i])
        ctx.hit('h5_foreign_node_names')
        if order != list(range(n_rows)):
            ctx.hit('h5_listing_order_differs_from_creation')
    rows_listed = [rows[i] for i in order]
    ctx.fp('h5', N, tuple(lens), dim, dt, stride, writer, tuple(order))
    ctx.scenario.update(rows=n_rows, lengths=lens, stride=stride, dtype=dt, elem_dim=dim, writer=writer)
    # serial definition, as the library itself loads the file in one process
    full = ctx.sut(ra.load, fn)
    if n_rows >= 2:
        require(len(full) == n_rows and all(C.same(np.asarray(full[i]), rows_listed[i]) for i in range(n_rows)),
                'serial_load_wrong', lambda: 'ra.load does not return the rows in listing order')
    outs = run_world(ctx, N, lambda r: io.load_h5_as_striped(fn, stride=stride), poison)
    check_striped_load(ctx, N, outs, rows_listed, stride, 'load_h5_as_striped')


def op_load_trajectory_as_striped(ctx, e, ops, N, poison):
    import mdtraj as md
    from ..engines import simpool
    t = ctx.tape
    io = e['mpi'].io
    n_files = N + t.draw(N + 2)
    n_atoms = t.irange(1, 4)
    top = _topology(n_atoms)
    stride = 1 if t.flag(2, 3) else t.irange(2, 3)
    d = ctx.scratch()
    files, xyz = [], []
    rs = np.random.RandomState(t.draw(2 ** 31 - 1))
    for i in range(n_files):
        L = t.irange(1, 5)
        x = rs.rand(L, n_atoms, 3).astype('float32')
        fn = os.path.join(d, 't%02d.h5' % i)
        md.Trajectory(x, top).save(fn)
        files.append(fn)
        xyz.append(md.load(fn).xyz)
    per_file = t.flag(1, 3)
    if per_file:
        # one dict of md.load arguments per file: the argument list has to be striped exactly like the files
        strides = [t.irange(1, 3) for _ in range(n_files)]
        ctx.hit('striped_per_file_args')
        if n_files >= 2 and t.flag():
            # one file listed twice, each time with its own arguments (two strides of one trajectory)
            i_, j_ = t.perm(n_files)[:2]
            files[j_], xyz[j_] = files[i_], xyz[i_]
            if strides[i_] == strides[j_]:
                strides[j_] = strides[i_] % 3 + 1
            ctx.hit('striped_same_file_twice')
    else:
        strides = [stride] * n_files
    ctx.fp('trj', N, tuple(len(x) for x in xyz), n_atoms, tuple(strides), per_file)
    ctx.scenario.update(files=n_files, lengths=[len(x) for x in xyz], stride=strides if per_file else stride)
    with simpool.installed(ctx):
        if per_file:
            outs = run_world(ctx, N, lambda r: io.load_trajectory_as_striped(
                list(files), args=[{'stride': s_} for s_ in strides], processes=2), poison)
        else:
            outs = run_world(ctx, N, lambda r: io.load_trajectory_as_striped(list(files), stride=stride, processes=2),
                             poison)
    want_len = [len(x[::s_]) for x, s_ in zip(xyz, strides)]
    for r, (gl, data) in enumerate(outs):
        require([int(v) for v in gl] == want_len, 'wrong_global_lengths', lambda: 'load_trajectory_as_striped rank %d: global_lengths %s, '
                'the loaded files have %s' % (r, [int(v) for v in gl], want_len))
        want = np.concatenate([x[::s_] for x, s_ in zip(xyz[r::N], strides[r::N])])
        require(C.same(np.asarray(data), want), 'wrong_share', lambda: 'load_trajectory_as_striped rank %d of %d: its share differs '
                '(shape %s vs %s)' % (r, N, np.asarray(data).shape, want.shape))
