"""Self-tests of the machinery itself.

  ./vcheck selftest determinism [Cxx ...] [--runs N]
        every property: the same batch of seeds executed three times - 16 workers, 3 workers, and a fresh
        interpreter under another PYTHONHASHSEED - must give identical per-run event-log digests.
  ./vcheck selftest reach [Cxx ...]
        reach probes and site coverage of the quick checks on the unchanged tree.
  ./vcheck selftest seeded [id ...]
        every confirmed seeded change under /verif/seeded: applied in a scratch worktree of /repo, the quick check of
        its property (and of the properties listed in meta.json "detected_by") must report a violation; the unchanged
        tree must stay clean.
"""
import json
import os
import subprocess
import sys
import tempfile

VERIF = os.path.dirname(os.path.dirname(os.path.dirname(os.path.abspath(__file__))))
ALL = ['C01', 'C02', 'C06', 'C09', 'C10', 'C13', 'C14', 'C15', 'C18', 'C19']


def _digests(pid, runs, nproc, hashseed, seed):
    fd, path = tempfile.mkstemp(suffix='.json', dir=os.path.join(VERIF, '.build'))
    os.close(fd)
    env = dict(os.environ, VERIF_DIGESTS=path, VERIF_RUNS=str(runs), VERIF_NPROC=str(nproc), VERIF_SEED=str(seed),
               VERIF_EVIDENCE_DIR=os.path.join(VERIF, '.build', 'selftest-evidence'), VERIF_WALL='600')
    env.pop('PYTHONHASHSEED', None)
    if hashseed is not None:
        env['VERIF_HASHSEED'] = str(hashseed)
    p = subprocess.run([os.path.join(VERIF, 'vcheck'), 'run', pid, 'quick'], env=env, stdout=subprocess.PIPE, stderr=subprocess.STDOUT, text=True)
    try:
        with open(path) as f:
            d = json.load(f)
    finally:
        os.unlink(path)
    return p.returncode, d, p.stdout


def determinism(args):
    runs = 400
    if '--runs' in args:
        i = args.index('--runs')
        runs = int(args[i + 1])
        args = args[:i] + args[i + 2:]
    props = [a.upper() for a in args] or ALL
    bad = 0
    for pid in props:
        rc1, d1, o1 = _digests(pid, runs, 16, None, 7)
        rc2, d2, o2 = _digests(pid, runs, 3, None, 7)
        rc3, d3, o3 = _digests(pid, runs, 16, 4242, 7)
        same = d1 == d2 == d3 and len(d1) == runs
        nd = len({x[1] for x in d1})
        print('%s: runs=%d exit=%s/%s/%s distinct_digests=%d identical(16 workers, 3 workers, hashseed 4242)=%s' %
              (pid, len(d1), rc1, rc2, rc3, nd, same), flush=True)
        if not same:
            bad += 1
            for a, b, c in zip(d1, d2, d3):
                if not (a == b == c):
                    print('   first divergence at run %s: %s | %s | %s' % (a[0], a[1:], b[1:], c[1:]))
                    break
    print('determinism self-test: %s' % ('OK' if not bad else '%d properties diverged' % bad))
    return 0 if not bad else 1


def seeded(args):
    root = os.path.join(VERIF, 'seeded')
    ids = args or sorted(d for d in os.listdir(root) if os.path.isdir(os.path.join(root, d)))
    miss = 0
    for sid in ids:
        meta = json.load(open(os.path.join(root, sid, 'meta.json')))
        props = meta.get('detected_by') or [meta['property']]
        p = subprocess.run([os.path.join(VERIF, 'tools', 'try_mutant.sh'), os.path.join(root, sid, 'patch.diff')] + props,
                           stdout=subprocess.PIPE, stderr=subprocess.STDOUT, text=True)
        hit = [ln for ln in p.stdout.splitlines() if ln.startswith('== ') and 'exit=1' in ln]
        print('%-40s %s' % (sid, 'detected by ' + ','.join(h.split()[1] for h in hit) if hit else 'MISSED'), flush=True)
        if not hit:
            miss += 1
    print('seeded self-test: %d/%d detected' % (len(ids) - miss, len(ids)))
    return 0 if not miss else 1


def reach(args):
    """every quick check on the unchanged tree: no reach probe stuck at zero, no masked-ufunc / np.empty site of the
    numerical modules left unexecuted under poison (the three MPI receive-buffer sites are C14's)"""
    props = [a.upper() for a in args] or ALL
    bad = 0
    for pid in props:
        ev = os.path.join(VERIF, '.build', 'selftest-evidence')
        env = dict(os.environ, VERIF_EVIDENCE_DIR=ev)
        p = subprocess.run([os.path.join(VERIF, 'vcheck'), 'run', pid, 'quick'], env=env, stdout=subprocess.PIPE, stderr=subprocess.STDOUT, text=True)
        cov = json.load(open(os.path.join(ev, pid + '.json')))['coverage']
        warn = cov.get('reach_warning') or []
        unc = [u for u in cov.get('uncovered_sites', []) if not u.startswith('mpi/')]
        ok = p.returncode == 0 and not warn and not unc
        print('%s: exit=%d reach_warning=%s uncovered_sites=%s' % (pid, p.returncode, warn, unc), flush=True)
        bad += 0 if ok else 1
    print('reach self-test: %s' % ('OK' if not bad else '%d checks have holes' % bad))
    return 0 if not bad else 1


def main(argv):
    if not argv:
        print(__doc__)
        return 2
    if argv[0] == 'determinism':
        return determinism(argv[1:])
    if argv[0] == 'seeded':
        return seeded(argv[1:])
    if argv[0] == 'reach':
        return reach(argv[1:])
    print(__doc__)
    return 2
