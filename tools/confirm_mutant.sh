#!/bin/bash
# usage: tools/confirm_mutant.sh <agent_worktree> <i> <seeded_id> <property>
# Confirms an agent-made change in a fresh scratch worktree: demo passes at HEAD, fails with the
# patch, pinned test suite still gives 47 passed; then files it under /verif/seeded/<seeded_id>/.
set -u
src=$1; i=$2; sid=$3; prop=$4
wt=/tmp/mut/confirm-$$
mkdir -p /tmp/mut
git -C /repo worktree add -q --detach "$wt" HEAD || exit 3
mkdir -p "$wt/_mutant" && cp -r "$src/_mutant/$i" "$wt/_mutant/$i"
cd "$wt"
needs_build=1
if [ $needs_build = 1 ]; then /venv/bin/python setup.py build_ext --inplace >/tmp/mut/build-$$.log 2>&1 || { echo BUILD-FAILED; tail -5 /tmp/mut/build-$$.log; }; fi
timeout 600 /venv/bin/python _mutant/$i/demo.py >/tmp/mut/demo0-$$.log 2>&1; rc0=$?
git apply _mutant/$i/patch.diff || { echo "PATCH DOES NOT APPLY"; }
if git diff --name-only | grep -q '\.pyx$'; then /venv/bin/python setup.py build_ext --inplace >/tmp/mut/build-$$.log 2>&1 || echo BUILD-FAILED-WITH-PATCH; fi
timeout 600 /venv/bin/python _mutant/$i/demo.py >/tmp/mut/demo1-$$.log 2>&1; rc1=$?
# the pinned suite runs without compiled extensions in /repo: remove them for a faithful run
find enspara -name '*.so' -delete; rm -rf build
tests=$(timeout 900 /venv/bin/python -m pytest -ra -q -p no:cacheprovider --timeout=900 --continue-on-collection-errors 2>&1 | tail -1)
echo "demo@HEAD exit=$rc0  demo@patched exit=$rc1  tests: $tests"
ok=0
if [ $rc0 = 0 ] && [ $rc1 != 0 ] && echo "$tests" | grep -q "47 passed"; then ok=1; fi
if [ $ok = 1 ]; then
  d=/verif/seeded/$sid; mkdir -p $d
  cp _mutant/$i/patch.diff _mutant/$i/demo.py $d/
  [ -f _mutant/$i/notes.md ] && cp _mutant/$i/notes.md $d/
  files=$(git diff --name-only | tr '\n' ' ')
  cat > $d/meta.json <<EOF
{
 "id": "$sid",
 "property": "$prop",
 "files": "$files",
 "origin": "fresh sub-agent given only the property text and a scratch worktree",
 "confirmed": "scratch worktree of /repo HEAD $(git -C /repo rev-parse --short HEAD): demo.py exit $rc0 without the patch, exit $rc1 with it; pinned suite with the patch: $tests",
 "needs_to_manifest": "see notes.md"
}
EOF
  echo "CONFIRMED -> $d"
else
  echo "NOT CONFIRMED"; tail -5 /tmp/mut/demo0-$$.log; echo ---; tail -5 /tmp/mut/demo1-$$.log
fi
cd /; git -C /repo worktree remove --force "$wt"; rm -f /tmp/mut/*-$$.log
