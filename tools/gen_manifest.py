#!/venv/bin/python
"""Regenerates MANIFEST.json from the table below (kept in one place so the
manifest can never drift from what exists)."""
import json
import os

HERE = os.path.dirname(os.path.dirname(os.path.abspath(__file__)))

NA = {
    'C03': 'assigns_to_counts is a pure array-to-matrix function: no schedule, clock, I/O, shared state or fault for a simulator to search; additivity and reorder invariance are relations over inputs.',
    'C04': 'the transition-matrix builders are deterministic algebra on one matrix on one thread; container type is an input dimension, not a schedule or fault.',
    'C05': 'a read of a freshly built ragged array is a pure function of (array, index); the same read oracle runs inside the C06 operation histories, where a regression is reported as C06.',
    'C07': 'committors and mean first-passage times are single linear solves on the argument; nothing is scheduled, timed, shared or faulted.',
    'C08': 'reactive fluxes are element-wise algebra on the outputs of C07; pure function of its inputs.',
    'C11': 'ergodic trimming is a graph computation on one matrix, single-threaded, no state between calls.',
    'C12': 'the reversible estimator is a deterministic fixed-point iteration; "both implementations agree" is differential testing over inputs, not a schedule or fault space.',
    'C16': 'fit is a composition of pure functions; save/load is a fault-free file round trip with one reader and no concurrency, and the property states nothing about crashes, so injecting them would demand more than it says.',
    'C17': 'widest-path search on one matrix; no state survives a call, nothing is concurrent.',
    'C20': 'the hysteresis state lives inside one call over one input array: a sequential fold has exactly one execution per input, so there is no interleaving, fault or history beyond the input itself.',
}

PENDING = {}

LEVEL_TEXT = 'Seeded search over schedules, configurations, fault sequences and operation histories with reference models as oracles; a clean batch is evidence, not proof.'

LEVEL_TEXTS = {'C01': 'Seeded search over entry points, settings (serial / simulated MPI world with schedule, eager roots, poisoned buffers) and k-medoids proposal histories; after every sweep the state is compared with a float64 model. Exploration is the right level: the space of histories and schedules is unbounded and the invariants are cheap to evaluate on each sampled execution.', 'C02': 'Seeded search over data, stopping rules, warm starts and simulated-MPI schedules with an independent greedy replay as oracle; termination claims are decided by a CPU budget that turns a non-terminating run into a violation. A clean batch is evidence, not proof.', 'C06': 'Seeded search over operation histories (the only nondeterminism this property has) with a list-of-rows reference model checked after every step and tape minimisation to the shortest failing history.', 'C09': 'Seeded search over accept/reject histories, seeds and simulated-MPI reductions; the cost is recomputed by the model from the returned centres and labels, so a state that merely looks cheaper is caught. Sampling, not enumeration.', 'C10': 'Seeded search over batch boundaries, worker counts, dispatch/completion orders and trajectory layouts with a brute-force nearest-centre oracle (float64 Kabsch RMSD plus an explicit float32 error model).', 'C13': 'Seeded search over element types, layouts, shapes (including sizes around powers of two), team sizes and virtual-thread orders under a memory model (snapshot isolation + write-write conflict detection) that turns a data race into a deterministic failure; exact rational reference values. Instruction-level interleavings inside a segment are not explored.', 'C14': 'Seeded search over world sizes, stripings, arrival orders, eager roots, reduction association and heap poison; refinement of the distributed run against the serial run and of every mpi operation against its serial definition, including the command-line front end end to end.', 'C15': 'Seeded search over worker counts, dispatch and completion orders, how far workers have got at each pool API call, read faults and file sets; oracle is the concatenation of individually loaded files / the saved rows. Tasks are atomic in the model.', 'C18': 'As C13 for the counting kernel (exact integer model), with invalid inputs probed in forked children; the algebraic laws are evaluated as labelled pure post-conditions on the simulated outputs.', 'C19': 'Each routine is executed as a baseline and under perturbations injected at the allocator, thread and history seams; all executions must agree bitwise. Decides independence from context, not functional correctness. Static site scan with executed-under-poison coverage shows what the sampling reached.'}

CHECKS = {
    'C19': dict(engine='simalloc+simgomp+history', design='5/C19, 4.3, 4.4',
                technique='deterministic simulation with fault injection at the allocator seam (seeded heap poison, red zones), the thread seam (virtual-thread teams, snapshot isolation) and the history seam (other calls before, reseeded global RNG, reused argument buffers, scribbled output buffers, repetition): each catalogue routine is executed as a baseline and under tape-chosen perturbations and all executions must agree bitwise; static scan of masked-ufunc/np.empty sites with executed-under-poison coverage',
                note='Trusted base: simalloc/simgomp, the canonicalisation of results. Compares executions with each other, not with a specification. Samplers without a seed argument are excluded (listed in the evidence). Worker-process counts are varied by C15/C10.'),
    'C06': dict(engine='history', design='5/C06, 4.5',
                technique='deterministic simulation of operation histories: a tape-driven state machine applies up to 30 mutating, observing and environment operations (caller mutates shared arrays, edits operator results, writes through fetched rows) to RaggedArrays and compares every observer with a list-of-rows model after each step; tape minimisation yields the shortest failing history',
                note='Trusted base: the list-of-rows model (plain NumPy per row). Only the index/value grammar of upstream tests and docstrings is generated. The history is the only nondeterminism this property has.'),
    'C10': dict(engine='simpool+simmpi', design='5/C10, 4.2',
                technique='deterministic simulation: batch reassignment on simulated worker processes, simulated joblib and a drawn machine memory size (1..n batches), tape-chosen dispatch/completion order; partition step after serial and simulated-MPI clustering runs; brute-force nearest-centre oracle',
                note='Trusted base: simpool/simmpi, mdtraj rmsd as reference metric for trajectories, float64 norms for features. <= 8 files x <= 8 frames, <= 5 centres; <= 40 frames for partition.'),
    'C15': dict(engine='simpool+simmpi', design='5/C15, 4.2',
                technique='deterministic simulation: in-process multiprocessing.Pool with per-worker forked-globals overlays; tape-chosen worker count, dispatch/completion order, lazy vs eager background progress and read faults; striped loaders on simulated MPI ranks; save/load round trips against the saved rows',
                note='Trusted base: simpool semantics (modelled on CPython multiprocessing.pool), mdtraj and PyTables as reference readers, NumPy. Tasks are atomic. <= 12 files x <= 12 frames x <= 9 atoms; <= 120 rows (1100 thorough), rows up to 20 000 elements (longer than one HDF5 chunk). Faults: read errors and short reads per file, ENOSPC / ENOMEM when the shared array is created; after a failed load the same load must succeed.'),
    'C13': dict(engine='simgomp+simalloc', design='5/C13, 4.3',
                technique='deterministic simulation: the unmodified compiled kernels linked against a simulated OpenMP runtime (virtual-thread teams with tape-chosen order, snapshot-isolated memory merged last-writer-wins) on a poisoned, red-zoned heap; exact rational reference',
                note='Trusted base: simgomp/simalloc (sim/native/simrt.c), exact-arithmetic reference, NumPy. Segments between barriers are not interleaved at instruction level; snapshot isolation is the stricter memory model used instead; critical sections, atomics, locks and Cython `with gil:` blocks are modelled (writes inside them are committed at once and are no conflict). 0..70 samples x 0..9 features, teams of 1..64.'),
    'C18': dict(engine='simgomp+simalloc', design='5/C18, 4.3',
                technique='deterministic simulation: compiled counting kernel on the simulated OpenMP runtime (team size, order, snapshot isolation) over a poisoned red-zoned heap, invalid inputs probed in a forked child; exact integer counting model; algebraic laws as labelled pure post-conditions',
                note='Trusted base: simgomp/simalloc, exact counting model, float64 MI/entropy model. 1..40 frames, 1..5 features and 2..5 states per side.'),
    'C01': dict(engine='simmpi+simalloc+history', design='5/C01',
                technique='deterministic simulation: every clustering entry point run serially and on N simulated MPI ranks under a seeded scheduler; k-medoids accept/reject histories driven from the tape through the warm-start/proposals interface; float64 reference model checked after every sweep',
                note='Trusted base: simmpi, the float64 metric/consistency model (mdtraj.rmsd with an explicit last-bit allowance for md.Trajectory data), NumPy. Bounds: <= 48 frames, <= 8 clusters, <= 5 sweeps, dims 1-4 or 6-10 atoms, 1..6 ranks. Metrics: euclidean, manhattan, user callables (one reusing its output buffer, one violating the triangle inequality), RMSD on trajectories (also pre-centred). Results also go through pickle / deepcopy. Ties may be broken either way.'),
    'C02': dict(engine='simmpi+simalloc', design='5/C02',
                technique='deterministic simulation: k-centers run serially and on N simulated MPI ranks under a seeded scheduler with poisoned receive buffers; independent greedy farthest-point replay as oracle, prefix runs and shortcut on/off as differential clauses, exhaustive optimum on tiny instances',
                note='Trusted base: simmpi, the greedy replay model, NumPy. Bit-for-bit clauses only on model-classified tie-free scenarios; stopping decisions within 1e-6 of the cutoff accepted either way. Non-termination is reported as no_progress via a 25 s CPU-time budget per run.'),
    'C09': dict(engine='simmpi+simalloc+history', design='5/C09',
                technique='deterministic simulation: tape-driven k-medoids proposal histories (serial and N simulated MPI ranks with seeded allreduce association order), reproducibility under perturbed global RNG, interleaved calls and heap poison',
                note='Trusted base: simmpi, cost model, NumPy. Cost comparisons allow 4n ulp (1e-5 for float32 RMSD values). Bounds: <= 48 frames, <= 6 sweeps, 1..6 ranks; estimators also configured after construction; seed 0 included.'),
    'C14': dict(engine='simmpi+simalloc', design='5/C14, 4.1',
                technique='deterministic simulation: N simulated MPI ranks (baton-passing threads behind a fake mpi4py) under a seeded scheduler with eager roots, reduction reassociation and poisoned receive buffers; refinement against the serial run and serial definitions',
                note='Trusted base: simmpi collective semantics (taken from mpi4py docs, no real MPI available), the float64 reference models, NumPy. Explores world sizes 1..8 (12 thorough), <= 24 trajectories, <= 60 frames; a tenth of the runs drive the command-line front end end to end (feature files, or trajectory files with --topology/--atoms/--subsample in up to three groups, loaded through the simulated worker pool).'),
}


def main():
    props = [json.loads(l) for l in open(os.path.join(HERE, 'properties.jsonl'))]
    man = {
        'version': 1,
        'setup_cmd': './vcheck build',
        'hooks': {
            'guard': 'ENSPARA_VERIF',
            'enable': 'no hook in /repo is needed: every seam is a module global, an import, a link-time dependency or a NumPy C-API registration point; checks stage /repo\'s working tree under /verif/.build and build it against the simulator runtime',
            'baseline_off_cmd': 'cd /repo && /venv/bin/python -m pytest -ra -q -p no:cacheprovider --timeout=900 --continue-on-collection-errors',
            'source_commits': [],
            'add_only': True,
        },
        'engines': [
            {'name': 'simmpi', 'path': 'sim/engines/simmpi.py', 'serves_properties': ['C14', 'C01', 'C02', 'C09', 'C10', 'C15'],
             'kind_free_text': 'fake mpi4py; one real thread per rank, exactly one runnable at a time, every hand-over a tape decision'},
            {'name': 'simpool', 'path': 'sim/engines/simpool.py', 'serves_properties': ['C15', 'C10', 'C14'],
             'kind_free_text': 'in-process multiprocessing.Pool / joblib / psutil with per-worker module-global overlays and tape-chosen dispatch and completion order'},
            {'name': 'simgomp+simalloc', 'path': 'sim/native/simrt.c', 'serves_properties': ['C13', 'C18', 'C19'],
             'kind_free_text': 'GNU OpenMP entry points as ucontext virtual threads with snapshot-isolated memory; NumPy allocator with seeded poison and red zones'},
            {'name': 'history', 'path': 'sim/props', 'serves_properties': ['C06', 'C09'],
             'kind_free_text': 'tape-driven operation histories against list-of-rows / brute-force models'},
        ],
        'checks': [],
        'not_applicable': [],
        'notes': 'All checks go through ./vcheck, which re-execs with PYTHONHASHSEED=0 and single-threaded BLAS, stages /repo\'s current working tree and rebuilds the kernels against the simulator runtime when sources changed. Exit 0 = held, 1 = VIOLATION line with replay file, 2 = harness error. See DESIGN.md.',
    }
    for p in props:
        pid = p['id']
        if pid in CHECKS:
            c = CHECKS[pid]
            man['checks'].append({
                'property_id': pid,
                'quick_cmd': './vcheck run %s quick' % pid,
                'thorough_cmd': './vcheck run %s thorough' % pid,
                'evidence_file': 'evidence/%s.json' % pid,
                'replay_cmd_template': './vcheck replay {path}',
                'engine': c['engine'],
                'level_claimed': {'category': 'exploration', 'text': LEVEL_TEXTS.get(pid, LEVEL_TEXT), 'design_ref': c['design']},
                'level_note': c['note'],
                'technique': c['technique'],
            })
        elif pid in NA:
            man['not_applicable'].append({'property_id': pid, 'reason': NA[pid]})
        else:
            man['not_applicable'].append({'property_id': pid, 'reason': PENDING.get(
                pid, 'not claimed yet: the simulation check for this property is still under construction (see DESIGN.md section 5)')})
    with open(os.path.join(HERE, 'MANIFEST.json'), 'w') as f:
        json.dump(man, f, indent=1)
    print('MANIFEST: %d checks, %d not applicable' % (len(man['checks']), len(man['not_applicable'])))


if __name__ == '__main__':
    main()
