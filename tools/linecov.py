#!/venv/bin/python
"""Line reach of the simulated runs inside the staged enspara sources (Python files only; the Cython kernels are
not traceable).  A development aid for finding generator gaps: it decides nothing.

  tools/linecov.py <runs-per-check> [Cxx ...]     prints, per enspara file, the lines no run reached
"""
import os
import sys

HERE = os.path.dirname(os.path.dirname(os.path.abspath(__file__)))
os.chdir(HERE)
sys.path.insert(0, HERE)
from sim.core import env  # noqa: E402

env.ensure_pinned_env()


def executable_lines(path):
    src = open(path).read()
    try:
        code = compile(src, path, 'exec')
    except SyntaxError:
        return set()
    out = set()
    todo = [code]
    while todo:
        c = todo.pop()
        for _s, _e, ln in c.co_lines():
            if ln is not None:
                out.add(ln)
        for k in c.co_consts:
            if hasattr(k, 'co_lines'):
                todo.append(k)
    return out


def main(argv):
    n = int(argv[1]) if len(argv) > 1 else 200
    pids = [a.upper() for a in argv[2:]] or ['C01', 'C02', 'C06', 'C09', 'C10', 'C13', 'C14', 'C15', 'C18', 'C19']
    hit = {}
    mon = sys.monitoring
    TOOL = 4
    mon.use_tool_id(TOOL, 'linecov')

    def on_line(code, line):
        fn = code.co_filename
        if '/enspara/' in fn:
            hit.setdefault(fn, set()).add(line)
        return mon.DISABLE

    mon.register_callback(TOOL, mon.events.LINE, on_line)
    mon.set_events(TOOL, mon.events.LINE)
    env.boot()
    import enspara
    root = os.path.dirname(os.path.abspath(enspara.__file__))
    from sim.core import driver, run as runmod
    from sim.core.tape import derive_seed
    seed0 = int(os.environ.get('VERIF_SEED', '0'))
    for pid in pids:
        prop = driver.load_prop(pid)
        if hasattr(prop, 'setup'):
            prop.setup()
        bad = 0
        for i in range(n):
            r = runmod.execute(prop, derive_seed(seed0, prop.ID, i), 'quick', index=i)
            if r.status not in ('ok', 'skip'):
                bad += 1
        print('[%s] %d runs, %d not ok' % (pid, n, bad), flush=True)
    mon.set_events(TOOL, 0)
    total_e = total_h = 0
    for dp, _dn, fns in sorted(os.walk(root)):
        if '/test' in dp or '/apps' in dp and False:
            continue
        for fn in sorted(fns):
            if not fn.endswith('.py'):
                continue
            p = os.path.join(dp, fn)
            ex = executable_lines(p)
            h = hit.get(p, set()) & ex
            if not h:
                continue
            total_e += len(ex)
            total_h += len(h)
            miss = sorted(ex - h)
            # compress to ranges
            rng = []
            for ln in miss:
                if rng and ln == rng[-1][1] + 1:
                    rng[-1][1] = ln
                else:
                    rng.append([ln, ln])
            print('%-40s %4d/%4d  missed: %s' % (os.path.relpath(p, root), len(h), len(ex),
                                                 ' '.join('%d' % a if a == b else '%d-%d' % (a, b) for a, b in rng)))
    print('total %d/%d' % (total_h, total_e))
    return 0


if __name__ == '__main__':
    rc = main(sys.argv)
    sys.stdout.flush()
    os._exit(rc)
