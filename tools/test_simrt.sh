#!/bin/bash
# Unit tests of the simulated OpenMP runtime itself (sim/native/simrt.c): small C programs compiled with -fopenmp and
# linked against libsimrt instead of libgomp.  usage: tools/test_simrt.sh   (after ./vcheck build)
set -e
cd "$(dirname "$0")/.."
N=$PWD/.build/native
PYLIB=$(/venv/bin/python -c "import sysconfig; print(sysconfig.get_config_var('LIBDIR'))")
T=$(mktemp -d -p .build)
for t in dispatcher_loops critical_sections overlapping_writes; do
  gcc -O2 -fopenmp -c sim/native/tests/$t.c -o $T/$t.o
  gcc $T/$t.o -L$N -lsimrt -Wl,-rpath,$N -L$PYLIB -lpython3.12 -Wl,-rpath,$PYLIB -o $T/$t
  echo "== $t"; $T/$t
done
rm -rf $T
