#!/bin/bash
# usage: tools/try_mutant.sh <patch.diff> <Cxx> [<Cxx>...]
# Applies the patch in a scratch worktree of /repo (never in /repo itself), runs the
# quick checks against it through VERIF_REPO, prints the verdict lines, removes the worktree.
set -u
patch=$(readlink -f "$1"); shift
wt=/tmp/mut/try-$$
mkdir -p /tmp/mut
git -C /repo worktree add -q --detach "$wt" HEAD || exit 3
if ! git -C "$wt" apply "$patch"; then echo "PATCH DOES NOT APPLY"; git -C /repo worktree remove --force "$wt"; exit 3; fi
cd /verif
for p in "$@"; do
  out=$(VERIF_REPO="$wt" VERIF_EVIDENCE_DIR=/tmp/mut/evidence-$$ timeout 900 ./vcheck run "$p" quick 2>&1)
  rc=$?
  echo "== $p exit=$rc"
  echo "$out" | grep -E "class=|VIOLATION|HARNESS|KNOWN" | cut -c1-300 | head -8
done
git -C /repo worktree remove --force "$wt"
rm -rf /tmp/mut/evidence-$$
